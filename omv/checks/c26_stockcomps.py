"""C26 - Stock math components compute their formulas and exact partials.

Monitor: for each of the ten components a random option set and input point is generated, a
one-component problem (IndepVarComp -> component, sources possibly in other units) is run and the
outputs / residuals, the component's own linearized sub-jacobians and the total derivatives (fwd or
rev) are compared with the documented formula evaluated by the harness (omv/ref/stock.py) and with the
complex-step derivative of that harness evaluation.

History dimension (a component must give the result for its CURRENT inputs every time it executes; state
cached inside the component - LU factors, index arrays, interpolation tables - must not leak between
executions or between setups).  After the first judged run every case goes on with
  * rerun   : 1-3 more run_model calls on the same problem after re-setting a random subset of the inputs
              (unconnected inputs partly through prob.set_val on the component input), everything judged again;
  * resetup : prob.setup() again on the same Problem / component instance, possibly in the other derivative
              mode and after add_equation / add_var / add_product / add_magnitude / add_eq_output /
              add_balance / add_spline (or changed options: SplineComp x_interp_val, LinearSystemComp
              size / vec_size / vectorize_A) on the existing instance, then two more judged runs;
  * embed   : a fresh instance executes several times inside ONE run: in a feedback cycle
              in_t = p + k*sum(out_s) (ExecComp) converged by NonlinearBlockGS or Newton(solve_subsystems),
              or under a DOEDriver with 2-3 list cases; the final state is judged: outputs against the formula
              at the inputs the component holds, partials there, totals against the coupled chain rule
              evaluated by the harness from the complex-step jacobian of the formula.
"""
import copy

import numpy as np

from omv.core import fingerprint
from omv.gen.compkit import (conv, dense_subjac, worst, perturbed_spread, tol_of, UNIT_CONV, EPS, cs_jac, PERT)
from omv.ref import stock as R

PROPERTY = 'C26'
LEVEL = 'exploration'
TECHNIQUE = 'runtime monitoring: stock component outputs/residuals, sub-jacobians and totals vs documented formula + complex step'
RULE = ('per component random option sets: vec_size 1-4, length/size 1-4, shapes, scaling factors, units and '
        '*_units with sources in other units, 1-3 equations/products/magnitudes/splines per component with '
        'shared inputs, MuxComp axes and shape given by tuple, int or an array val, EQConstraintComp/BalanceComp '
        'use_mult x normalize x rhs_val x default (unconnected) inputs, BalanceComp units through eq_units or '
        'lhs_kwargs/rhs_kwargs (constructor and add_balance), solved with Newton against an affine ExecComp, LinearSystemComp '
        'vectorize_A x vec_size, SplineComp methods x x_cp_val/num_cp x vec_size; distinct = distinct '
        '(component, options); non-trivial = outputs and derivatives were compared')
ASSUMPTIONS = [
    'the documented formula evaluated with NumPy is the reference; derivatives by complex step on it',
    'tolerance = 20 x spread of the reference under 1e-13 relative input perturbations (3 draws) + 64 ulp of '
    'the largest entry (conditioning-derived; covers ill-conditioned A in LinearSystemComp)',
    'VectorMagnitudeComp inputs keep |a| >= 0.2; |rhs| stays 0.05 away from the C1 switch at 2',
    'SplineComp lagrange2/lagrange3: stencil = bracketing interval extended to the right / both sides and '
    'shifted inwards at the ends; x_interp strictly inside the control range; akima slopes keep '
    '|m[i+1]-m[i]| >= 0.05 (kinks of the Akima weights)',
    'duplicate input names within one AddSubtractComp equation and a_name == b_name products are not '
    'generated (the component warns about / does not define them)',
    'history: the same domain guards are applied to the values the component actually holds (inside a feedback '
    'cycle they are read back from the problem); a round whose redraws stay outside the domain is not run',
    'embedded in a cycle the component is the last subsystem, so after NLBGS / Newton(solve_subsystems) its '
    'outputs were computed from the inputs it holds (no convergence assumption); the reference totals are the '
    'chain rule through in_t = fac*p + k*sum(out_s) with the formula jacobian at those inputs; their tolerance '
    'additionally covers 1e-13 relative perturbations of the jacobian entries (backward error of the linear solve)',
    'calling add_equation/add_var/add_product/add_magnitude/add_eq_output/add_balance/add_spline or changing '
    'options on an instance that was set up before, followed by a new Problem.setup(), is legal use',
]
MIN_JUDGED = {'quick': 250, 'thorough': 6000}
COMPS = ['AddSubtractComp', 'MuxComp', 'DotProductComp', 'CrossProductComp', 'MatrixVectorProductComp',
         'VectorMagnitudeComp', 'EQConstraintComp', 'BalanceComp', 'LinearSystemComp', 'SplineComp']
REQUIRED_COUNTERS = ['comp:' + c for c in COMPS] + \
    ['obs:output', 'obs:partials', 'obs:totals-fwd', 'obs:totals-rev', 'obs:residual', 'obs:balance-solved',
     'cell:units', 'cell:multi', 'cell:shared-input', 'cell:default-input', 'cell:balance-ctor-kwargs',
     'cell:mux-int-shape', 'cell:mux-array-val',
     'hist:rerun', 'hist:resetup', 'hist:resetup-extended', 'hist:resetup-mode-flip', 'hist:embed-nlbgs',
     'hist:embed-newton', 'hist:embed-doe', 'hist:set-default-input', 'hist:linsys-vecN-new-A',
     'hist:linsys-embed-lnbgs', 'hist:embed-newton-nosub', 'hist:linsys-resetup-options', 'hist:balance-resolve',
     'hist:spline-new-x_interp'] + \
    ['hist-comp:' + c for c in COMPS] + \
    ['spline:' + m for m in ('slinear', 'lagrange2', 'lagrange3', 'cubic', 'akima', 'bsplines',
                             'scipy_slinear', 'scipy_cubic', 'scipy_quintic')]
SHARD_TIMEOUT = {'quick': 900, 'thorough': 3600}

UNITS = ['m', 'cm', 's', 'N', 'kg']


def pick(rng, seq):
    return seq[int(rng.integers(len(seq)))]


def rnd(rng, shape, lo=-2.0, hi=2.0):
    return np.round(rng.uniform(lo, hi, size=shape), 6)


def units_pair(rng, p_units=0.4, p_other=0.6):
    """(component units, source units)."""
    if rng.random() >= p_units:
        return None, None
    u = str(pick(rng, UNITS))
    cands = [a for (a, b) in UNIT_CONV if b == u and UNIT_CONV[(a, b)][1] == 0.0]
    if cands and rng.random() < p_other:
        return u, str(pick(rng, cands))
    return u, u


# ----------------------------------------------------------------------------------------------
# generic flow: first run, reruns, re-setup, embedding (shared by all components but BalanceComp)
# ----------------------------------------------------------------------------------------------
class Ctx(object):
    def __init__(self, case, acc, comp, optclass):
        self.case, self.acc = case, acc
        self.comp = comp
        self.optclass = optclass
        self.bad = False
        self.fp = fingerprint({'comp': comp, 'opts': case['opts'], 'mode': case.get('mode')})

    def viol(self, obs, what):
        self.acc.viol('%s:%s:%s' % (self.comp, self.optclass, obs), what, self.case, fp=self.fp,
                      new_case=not self.bad)
        self.bad = True


def _cmp(ctx, obs, label, got, ref, tol):
    got = np.asarray(got, dtype=float)
    ref = np.asarray(ref, dtype=float)
    if got.size != ref.size:
        ctx.viol(obs + '-shape', '%s has size %d, expected %d' % (label, got.size, ref.size))
        return
    got = got.reshape(ref.shape)
    if not np.all(np.isfinite(got)) or np.any(np.abs(got - ref) > tol):
        ctx.viol(obs, '%s: %s (tol %.3g)' % (label, worst(got, ref), float(np.max(tol))))


def gen_hist(hrng):
    """History plan of one case (drawn from a stream of its own so that the option/value stream of the
    cases is the one of the first-run-only check)."""
    return {'rounds': int(hrng.integers(1, 4)), 'subset': bool(hrng.random() < 0.7),
            'resetup': bool(hrng.random() < 0.75), 'extend': bool(hrng.random() < 0.6),
            'flip': bool(hrng.random() < 0.5), 'embed': str(pick(hrng, ['nlbgs', 'newton', 'doe'])),
            'lin': str(pick(hrng, ['direct', 'lnbgs'])), 'auto': bool(hrng.random() < 0.5),
            'hseed': int(hrng.integers(1, 2 ** 31 - 1))}


def spread(fun, xs, seed, post=None, nrep=3):
    """compkit.perturbed_spread (same draws) with an optional post-processing `post(J) -> dict of arrays`
    whose spread is measured too, under the operand perturbations AND under 1e-13 relative perturbations
    of the jacobian entries themselves (backward error of a stable linear solve with them)."""
    rng = np.random.default_rng(seed)
    xs = [np.asarray(x, dtype=float) for x in xs]
    o0, J0 = cs_jac(fun, xs)
    Do = [np.zeros(o.shape) for o in o0]
    DJ = [[np.zeros(j.shape) for j in row] for row in J0]
    P0 = post(J0) if post else {}
    DP = {k: np.zeros(np.shape(v)) for k, v in P0.items()}
    for _ in range(nrep):
        xp = [x * (1.0 + PERT * rng.uniform(-1, 1, size=x.shape)) for x in xs]
        o1, J1 = cs_jac(fun, xp)
        for i, o in enumerate(o1):
            Do[i] = np.maximum(Do[i], np.abs(o - o0[i]))
        for i, row in enumerate(J1):
            for k, j in enumerate(row):
                DJ[i][k] = np.maximum(DJ[i][k], np.abs(j - J0[i][k]))
        if post:
            prng = np.random.default_rng(seed + 7 + _)
            J2 = [[j * (1.0 + PERT * prng.uniform(-1, 1, size=j.shape)) for j in row] for row in J0]
            for Px in (post(J1), post(J2)):
                for k, v in Px.items():
                    DP[k] = np.maximum(DP[k], np.abs(v - P0[k]))
    return o0, J0, Do, DJ, P0, DP


def _inp(name, shape, val, units=None, src_units=None, connected=True, kind='std'):
    """kind: how later values are drawn ('std' [-2,2], 'lhs' [-5,5], 'rhs' both normalization regimes,
    'mult' [0.3,3], 'vmag' away from the origin)."""
    return {'name': name, 'shape': list(shape), 'val': np.asarray(val).tolist(), 'units': units,
            'src_units': src_units, 'connected': connected, 'kind': kind}


def _draw(rng, i):
    shp = tuple(i['shape'])
    kind = i.get('kind', 'std')
    if kind == 'lhs':
        return rnd(rng, shp, -5, 5)
    if kind == 'rhs':
        return _rhs_vals(rng, shp)
    if kind == 'mult':
        return rnd(rng, shp, 0.3, 3)
    if kind == 'A':
        return _wellcond(rng, shp)
    v = rnd(rng, shp)
    if kind == 'vmag':
        nrm = np.sqrt(np.sum(v * v, axis=-1, keepdims=True))
        v = np.where(nrm < 0.2, v + 0.5, v)
    return v


def _wellcond(rng, shp):
    """Random matrices (..., n, n) with a dominant diagonal of random sign (as gen_linsys draws them)."""
    n = shp[-1]
    A = rnd(rng, shp, -1, 1)
    for M in A.reshape(-1, n, n):
        M += np.diag(np.sign(rng.uniform(-1, 1, n)) * (n + 0.5))
    return A


def _guard(spec, xs):
    g = spec.get('guard')
    if g is not None:
        r = g(xs)
        if r:
            return r
    for i, x in zip(spec['ins'], xs):
        if i.get('kind') == 'rhs' and np.any(np.abs(np.abs(x) - 2.0) < 0.05):
            return 'rhs-near-normalization-switch'
        if i.get('kind') == 'vmag' and np.min(np.sqrt(np.sum(np.asarray(x) ** 2, axis=-1))) < 0.15:
            return 'vector-magnitude-near-origin'
        if i.get('kind') == 'A':
            n = np.shape(x)[-1]
            for M in np.reshape(x, (-1, n, n)):
                off = np.sum(np.abs(M), axis=1) - np.abs(np.diag(M))
                if np.any(np.abs(np.diag(M)) < 0.25 + off * (1.0 if n == 1 else 1.05)):
                    return 'matrix-not-diagonally-dominant'
    return None


def _redraw(spec, xs, rng, which):
    """New values for the inputs listed in `which`, inside the domain; None if 30 redraws fail."""
    for _ in range(30):
        new = [(_draw(rng, i) if k in which else np.array(xs[k], dtype=float)) for k, i in enumerate(spec['ins'])]
        if _guard(spec, new) is None:
            return new
    return None


def _src(k):
    return 'ivc.v%d' % k


def _set_conn(prob, spec, xs, which=None):
    for k, i in enumerate(spec['ins']):
        if i['connected'] and (which is None or k in which):
            fac, off = conv(i['src_units'], i['units'])
            prob.set_val(_wrt(i, k), xs[k] / fac - off)


def _wrt(i, k):
    """Name of the independent variable behind input k: IndepVarComp output, or the component input itself
    (served by the automatic IndepVarComp) when the case leaves the inputs unconnected ('auto')."""
    return ('c.' + i['name']) if i.get('auto') else _src(k)


def _wire(prob, ivc, spec, start=0, fb=None):
    for k, i in enumerate(spec['ins']):
        if k < start or not i['connected'] or i.get('auto'):
            continue
        ivc.add_output('v%d' % k, val=np.ones(i['shape']), units=i['src_units'])
        if fb is not None and k == fb['t']:
            prob.model.connect(_src(k), 'fb.p')
            prob.model.connect('fb.u', 'c.' + i['name'])
        else:
            prob.model.connect(_src(k), 'c.' + i['name'])


def coupled_totals(J, ins, outs, conn, fb):
    """d out_m / d v_k for the cycle in_t = fac_t v_t + g*sum(out_s), out = f(in): chain rule with the
    jacobian J[m][k] of f."""
    t, s, g = fb['t'], fb['s'], fb['k']
    Jst = J[s][t]
    ns, nt = Jst.shape
    K = g * np.ones((nt, ns))
    M = np.eye(ns) - Jst @ K
    res = {}
    for k in conn:
        fac = conv(ins[k]['src_units'], ins[k]['units'])[0]
        Y = np.linalg.solve(M, J[s][k]) * fac            # d out_s / d v_k
        for m in range(len(outs)):
            if k == t:
                res[(m, k)] = J[m][t] @ (fac * np.eye(nt) + K @ Y)
            else:
                res[(m, k)] = J[m][k] * fac + J[m][t] @ (K @ Y)
    return res


def coupled_solve_bounds(J, ins, outs, conn, fb, P0, lnbgs):
    """Round-off bound of the linear solve behind the totals of the cycle.  The harness assembles the same
    system OpenMDAO solves (unknowns: IndepVarComp outputs v, feedback output u, component outputs o),
    checks that its solution reproduces the chain-rule reference, and returns per total the forward error
    bound |A^-1| |dA| |X| of Gaussian elimination with partial pivoting, |dA| <= gamma_3n |L||U| <=
    8 n eps * n max|A| elementwise independent of the pivot order (Higham, Accuracy and Stability of
    Numerical Algorithms, Thm 9.3/9.4 with growth factor ~1; fwd: A X = E_v, rev: A^T Y = E_o; the larger of
    both), plus for LinearBlockGS the normwise bound cond(A) * rtol * |X|max of its stopping criterion.
    All sources are wired without unit conversion in this phase so that the system is O(1)-scaled."""
    t, s, g = fb['t'], fb['s'], fb['k']
    sizes_v = [int(np.prod(ins[k]['shape'])) for k in conn]
    sizes_o = [int(np.prod(o['shape'])) for o in outs]
    nt = int(np.prod(ins[t]['shape']))
    off_v = dict(zip(conn, np.concatenate([[0], np.cumsum(sizes_v)])[:-1].astype(int)))
    nv = int(sum(sizes_v))
    off_u = nv
    off_o = (nv + nt + np.concatenate([[0], np.cumsum(sizes_o)])[:-1]).astype(int)
    n = nv + nt + int(sum(sizes_o))
    A = np.eye(n)
    fac_t = conv(ins[t]['src_units'], ins[t]['units'])[0]
    A[off_u:off_u + nt, off_v[t]:off_v[t] + nt] = -fac_t * np.eye(nt)
    A[off_u:off_u + nt, off_o[s]:off_o[s] + sizes_o[s]] = -g
    for m in range(len(outs)):
        r = slice(off_o[m], off_o[m] + sizes_o[m])
        A[r, off_u:off_u + nt] = -J[m][t]
        for k in conn:
            if k != t:
                fac = conv(ins[k]['src_units'], ins[k]['units'])[0]
                A[r, off_v[k]:off_v[k] + sizes_v[conn.index(k)]] = -J[m][k] * fac
    Ai = np.linalg.inv(A)
    X = Ai[:, :nv]                                  # A X = E_v
    no = int(sum(sizes_o))
    L = Ai.T[:, nv + nt:]                           # A^T L = E_o
    # |dA| <= gamma_n |L||U| <= gamma_n n rho max|A| elementwise, whatever the pivot order (growth factor rho ~ 1)
    amax = float(np.max(np.abs(A)))
    rs_f, cs_f = np.sum(np.abs(Ai), axis=1), np.sum(np.abs(X), axis=0)
    rs_r, cs_r = np.sum(np.abs(Ai.T), axis=1), np.sum(np.abs(L), axis=0)
    Ef = n * amax * np.outer(rs_f, cs_f)
    Er = n * amax * np.outer(rs_r, cs_r)
    cnd = float(np.linalg.cond(A)) if lnbgs else 0.0
    res = {}
    for m in range(len(outs)):
        r = slice(off_o[m], off_o[m] + sizes_o[m])
        rl = slice(off_o[m] - nv - nt, off_o[m] - nv - nt + sizes_o[m])
        for k in conn:
            c = slice(off_v[k], off_v[k] + sizes_v[conn.index(k)])
            if not np.allclose(X[r, c], P0[(m, k)], rtol=1e-9, atol=1e-12 * (1.0 + np.max(np.abs(X)))):
                raise RuntimeError('harness: chain-rule reference and assembled system disagree')
            bound = 8 * n * EPS * np.maximum(Ef[r, c], Er[c, rl].T)
            if lnbgs:
                bound = bound + 10 * cnd * 1e-15 * max(float(np.max(np.abs(X))), float(np.max(np.abs(L))))
            res[(m, k)] = bound
    assert no == L.shape[1]
    return res


def judge_state(ctx, tag, prob, comp, spec, xs, mode, seed, fb=None, band=0.0):
    """Judge outputs, component partials and totals of the problem's current state against the formula at
    xs (values of all component inputs, component units).  Returns False after a violation.
    band: extra relative/absolute band for outputs and totals when the state was converged by an outer Newton
    iteration instead of being computed by the component (its residual tolerance bounds the state error)."""
    acc = ctx.acc
    ins, outs = spec['ins'], spec['outs']
    pre = '' if tag == 'first' else tag + ':'
    conn = [k for k, i in enumerate(ins) if i['connected']]
    post = (lambda J: coupled_totals(J, ins, outs, conn, fb)) if fb else None
    o0, J0, Do, DJ, P0, DP = spread(spec['ref'], xs, seed, post)
    PB = coupled_solve_bounds(J0, ins, outs, conn, fb, P0, fb.get('lnbgs')) if fb else None
    for k, i in enumerate(ins):
        got = np.asarray(prob.get_val('c.' + i['name']), dtype=float)
        if got.size != xs[k].size or not np.allclose(got.reshape(xs[k].shape), xs[k], rtol=1e-12, atol=1e-13):
            if i['connected'] or i.get('was_set'):
                raise RuntimeError('harness: input %s not delivered (%s)' % (i['name'], tag))
            ctx.viol(pre + 'default-input-value', 'unconnected input %s has value %s, documented default %s'
                     % (i['name'], got.ravel()[:4], xs[k].ravel()[:4]))
            return False
    for k, o in enumerate(outs):
        got = np.asarray(prob.get_val('c.' + o['name']))
        acc.count('obs:output')
        if tuple(got.shape) != tuple(o['shape']):
            ctx.viol(pre + 'output-shape', 'output %s has shape %s, documented %s' % (o['name'], got.shape, o['shape']))
            continue
        _cmp(ctx, pre + 'output', 'output ' + o['name'], got, o0[k], tol_of(o0[k], Do[k]) + band * (1.0 + np.abs(o0[k])))
    try:
        tot = prob.compute_totals(of=['c.' + o['name'] for o in outs], wrt=[_wrt(ins[k], k) for k in conn],
                                  return_format='flat_dict') if conn else {}
    except Exception as e:
        ctx.viol(pre + 'compute_totals-raises:' + type(e).__name__, str(e)[:300])
        return False
    for oi, o in enumerate(outs):
        for k, i in enumerate(ins):
            ref = J0[oi][k]
            tol = tol_of(ref, DJ[oi][k]) + 16 * EPS * np.abs(ref)
            if spec.get('partials', True):
                sj = dense_subjac(comp, o['name'], i['name'])
                acc.count('obs:partials')
                if sj is None:
                    if np.any(ref != 0):
                        ctx.viol(pre + 'partials-undeclared-nonzero', 'd%s/d%s not declared but nonzero'
                                 % (o['name'], i['name']))
                else:
                    _cmp(ctx, pre + 'partials', 'partial d%s/d%s' % (o['name'], i['name']), sj, ref, tol)
            if i['connected']:
                acc.count('obs:totals-' + mode)
                got = tot['c.' + o['name'], _wrt(i, k)]
                if fb:
                    rt = P0[(oi, k)]
                    _cmp(ctx, pre + 'totals-' + mode, 'total d%s/d%s' % (o['name'], i['name']), got, rt,
                         tol_of(rt, DP[(oi, k)]) + 64 * EPS * np.abs(rt) + PB[(oi, k)] + band * (1.0 + np.abs(rt)))
                else:
                    fac, _ = conv(i['src_units'], i['units'])
                    _cmp(ctx, pre + 'totals-' + mode, 'total d%s/d%s' % (o['name'], i['name']), got, ref * fac,
                         tol * abs(fac) + 64 * EPS * np.abs(ref * fac))
    if spec.get('extra') is not None and not band:
        spec['extra'](ctx, pre, prob, comp, xs, seed)
    return not ctx.bad


def _cleanup(prob):
    try:
        prob.cleanup()
    except Exception:
        pass


def run_flow(ctx, specfn, seed):
    """First run + history of one case.  specfn(case) -> spec: dict(ins, outs, make, ref, [guard, extend,
    add_item, partials, extra])."""
    import openmdao.api as om
    acc, case = ctx.acc, ctx.case
    hist = case.get('hist')
    mode = case['mode']
    spec = specfn(case)
    ins = spec['ins']
    xs = [np.array(i['val'], dtype=float).reshape(i['shape']) for i in ins]
    r = _guard(spec, xs)
    if r:
        acc.skip(r)
        return False
    prob = None
    tag = 'first'
    try:
        # ------------------------------------------------------------------ first run
        try:
            prob = om.Problem()
            ivc = prob.model.add_subsystem('ivc', om.IndepVarComp())
            comp = spec['make']()
            prob.model.add_subsystem('c', comp)
            _wire(prob, ivc, spec)
            ivc.add_output('unused', 1.0)
            prob.setup(mode=mode)
            _set_conn(prob, spec, xs)
            prob.run_model()
        except Exception as e:
            ctx.viol('raises:' + type(e).__name__, '%s: %s' % (type(e).__name__, str(e)[:300]))
            return True
        if not judge_state(ctx, 'first', prob, comp, spec, xs, mode, seed):
            return True
        if any(i['connected'] and i['units'] != i['src_units'] for i in ins):
            acc.count('cell:units')
        if any(not i['connected'] for i in ins):
            acc.count('cell:default-input')
        if not hist:
            return True
        acc.count('hist-comp:' + ctx.comp)
        hrng = np.random.default_rng([hist['hseed'], 1])

        def rerun(tag, spec, xs, mode, r):
            """re-set a random subset of the inputs, run, judge"""
            idx = list(range(len(spec['ins'])))
            which = set(k for k in idx if not hist['subset'] or hrng.random() < 0.6) or {int(pick(hrng, idx))}
            # unconnected inputs keep their value unless set through the problem (half of the rounds)
            if hrng.random() < 0.5:
                which = set(k for k in which if spec['ins'][k]['connected'])
                if not which:
                    return xs
            new = _redraw(spec, xs, hrng, which)
            if new is None:
                acc.count('hist:round-outside-domain')
                return xs
            _set_conn(prob, spec, new, which)
            for k in which:
                i = spec['ins'][k]
                if not i['connected']:
                    prob.set_val('c.' + i['name'], new[k])
                    i['was_set'] = True
                    acc.count('hist:set-default-input')
            if spec.get('on_rerun'):
                spec['on_rerun'](ctx, which, xs, new)
            prob.run_model()
            acc.count('hist:' + tag.split('-')[0])
            judge_state(ctx, tag, prob, comp, spec, new, mode, seed + 31 * (r + 1))
            return new

        # ------------------------------------------------------------------ reruns
        tag = 'rerun'
        for r in range(hist['rounds']):
            xs = rerun('rerun', spec, xs, mode, r)
            if ctx.bad:
                return True
        # ------------------------------------------------------------------ second setup of the same problem
        if hist['resetup']:
            tag = 'resetup'
            n_old = len(ins)
            if hist['extend'] and spec.get('extend') is not None:
                ext = spec['extend'](np.random.default_rng([hist['hseed'], 2]))
                case2, item = ext[0], ext[1]
                for cname in ext[2:]:
                    acc.count(cname)
                spec2 = specfn(case2)
                spec2['add_item'](comp, item)
                if len(spec2['ins']) < n_old or any(a['name'] != b['name'] for a, b in zip(ins, spec2['ins'])):
                    raise RuntimeError('harness: extension reordered the inputs')
                _wire(prob, ivc, spec2, start=n_old)
                spec = spec2
                acc.count('hist:resetup-extended')
            mode2 = mode
            if hist['flip']:
                mode2 = 'rev' if mode == 'fwd' else 'fwd'
                acc.count('hist:resetup-mode-flip')
            prob.setup(mode=mode2)
            xs2 = [np.array(i['val'], dtype=float).reshape(i['shape']) for i in spec['ins']]
            new = _redraw(spec, xs2, hrng, set(k for k, i in enumerate(spec['ins']) if i['connected']))
            if new is None:
                acc.count('hist:round-outside-domain')
                new = xs2
            _set_conn(prob, spec, new)
            prob.run_model()
            acc.count('hist:resetup')
            if not judge_state(ctx, 'resetup', prob, comp, spec, new, mode2, seed + 1000):
                return True
            rerun('resetup-rerun', spec, new, mode2, 50)
            if ctx.bad:
                return True
        _cleanup(prob)
        prob = None
        # ------------------------------------------------------------------ fresh instance executing repeatedly
        spec = specfn(case)
        tag = 'embed'
        embed(ctx, spec, hist, mode, seed)
        return True
    except Exception as e:
        if tag == 'first' or str(e).startswith('harness:'):
            raise
        ctx.viol(tag + ':raises:' + type(e).__name__, '%s: %s' % (type(e).__name__, str(e)[:300]))
        return True
    finally:
        if prob is not None:
            _cleanup(prob)


def embed(ctx, spec, hist, mode, seed):
    """A fresh instance that executes several times inside one run_model / run_driver."""
    import openmdao.api as om
    acc = ctx.acc
    ins, outs = spec['ins'], spec['outs']
    for i in ins:
        i.pop('auto', None)          # always wired to an IndepVarComp here
        if hist['embed'] != 'doe':
            i['src_units'] = i['units']      # no conversion factors inside the coupled linear system
    hrng = np.random.default_rng([hist['hseed'], 3])
    conn = [k for k, i in enumerate(ins) if i['connected']]
    base = [np.array(i['val'], dtype=float).reshape(i['shape']) for i in ins]
    how = hist['embed'] if conn else None
    if how is None:
        return
    prob = om.Problem()
    try:
        ivc = prob.model.add_subsystem('ivc', om.IndepVarComp())
        ivc.add_output('unused', 1.0)
        if how == 'doe':
            comp = prob.model.add_subsystem('c', spec['make']())
            _wire(prob, ivc, spec)
            pts = []
            for _ in range(int(hrng.integers(2, 4))):
                p = _redraw(spec, base, hrng, set(conn))
                if p is not None:
                    pts.append(p)
            if len(pts) < 2:
                acc.count('hist:round-outside-domain')
                return
            cases = []
            for p in pts:
                row = []
                for k in conn:
                    fac, off = conv(ins[k]['src_units'], ins[k]['units'])
                    row.append((_src(k), p[k] / fac - off))
                cases.append(row)
            for k in conn:
                prob.model.add_design_var(_src(k))
            prob.driver = om.DOEDriver(om.ListGenerator(cases))
            prob.setup(mode=mode)
            prob.run_driver()
            acc.count('hist:embed-doe')
            judge_state(ctx, 'embed-doe', prob, comp, spec, pts[-1], mode, seed + 2000)
            return
        # feedback cycle  in_t = p + g*sum(out_s)
        t = int(pick(hrng, conn))
        s = int(hrng.integers(len(outs)))
        ny = int(np.prod(outs[s]['shape']))
        g = float(np.round((0.05 if hrng.random() < 0.5 else -0.05) / ny, 6))
        fb = {'t': t, 's': s, 'k': g}
        prob.model.add_subsystem('fb', om.ExecComp(
            'u = p + %r*sum(y)' % g,
            u={'shape': tuple(ins[t]['shape']), 'units': ins[t]['units']},
            p={'shape': tuple(ins[t]['shape']), 'units': ins[t]['units']},
            y={'shape': tuple(outs[s]['shape']), 'units': outs[s].get('units')}))
        comp = prob.model.add_subsystem('c', spec['make']())
        _wire(prob, ivc, spec, fb=fb)
        prob.model.connect('c.' + outs[s]['name'], 'fb.y')
        # implicit component whose state is converged by the outer Newton iteration only (its solve_nonlinear
        # never runs); the totals go through its solve_linear (LinearBlockGS)
        nosub = bool(how == 'newton' and spec.get('lnbgs_ok') and hist['flip'])
        if nosub or (hist['lin'] == 'lnbgs' and spec.get('lnbgs_ok')):
            prob.model.linear_solver = om.LinearBlockGS(maxiter=100, atol=1e-300, rtol=1e-15, iprint=-1)
            fb['lnbgs'] = True
            acc.count('hist:linsys-embed-lnbgs')
        else:
            prob.model.linear_solver = om.DirectSolver()
        if how == 'nlbgs':
            prob.model.nonlinear_solver = om.NonlinearBlockGS(maxiter=12, atol=1e-12, rtol=1e-12, iprint=-1)
        elif nosub:
            # (Newton takes its steps with the group's LinearBlockGS as well: a DirectSolver owned by Newton next
            # to a LinearBlockGS on the group gives wrong rev totals for any cycle - core defect outside C26,
            # scratch/triage/C26/repro-s3.py)
            prob.model.nonlinear_solver = om.NewtonSolver(solve_subsystems=False, maxiter=30, atol=1e-13,
                                                          rtol=1e-13, iprint=-1)
            how = 'newton-nosub'
        else:
            prob.model.nonlinear_solver = om.NewtonSolver(solve_subsystems=True, maxiter=8, atol=1e-12,
                                                          rtol=1e-12, iprint=-1)
        prob.setup(mode=mode)
        p0 = _redraw(spec, base, hrng, set(conn))
        if p0 is None:
            acc.count('hist:round-outside-domain')
            return
        _set_conn(prob, spec, p0)
        band = 0.0
        if nosub:
            # start Newton next to the solution of the open loop
            prob.set_val('fb.u', p0[t])
            y0 = spec['ref'](p0)
            for o, v in zip(outs, y0):
                prob.set_val('c.' + o['name'], v)
            band = 1e-9
        prob.run_model()
        nexec = prob.model.nonlinear_solver._iter_count
        if nosub:
            prob.model.run_apply_nonlinear()
            if not float(np.max(np.abs(prob.model._residuals.asarray()))) <= 1e-11:
                acc.count('hist:embed-newton-not-converged')
                return
        # the values the component holds now
        cur = [np.asarray(prob.get_val('c.' + i['name']), dtype=float).reshape(i['shape']).copy() for i in ins]
        for k, i in enumerate(ins):
            if k != t and not np.allclose(cur[k], p0[k] if i['connected'] else base[k], rtol=1e-12, atol=1e-13):
                raise RuntimeError('harness: input %s not delivered (embed)' % i['name'])
        if not all(np.all(np.isfinite(c)) for c in cur) or np.max(np.abs(cur[t] - p0[t])) > 10.0:
            acc.count('hist:embed-diverged')
            return
        if _guard(spec, cur) is not None:
            acc.count('hist:round-outside-domain')
            return
        if np.max(np.abs(cur[t] - p0[t])) == 0.0:
            acc.count('hist:embed-no-feedback')     # sum(out_s) == 0: nothing circulated
        acc.count('hist:embed-' + how)
        acc.count('hist:embed-executions', max(int(nexec), 1))
        judge_state(ctx, 'embed-' + how, prob, comp, spec, cur, mode, seed + 2000, fb=fb, band=band)
    except Exception as e:
        if str(e).startswith('harness:'):
            raise
        ctx.viol('embed-%s:raises:%s' % (how, type(e).__name__), '%s: %s' % (type(e).__name__, str(e)[:300]))
    finally:
        _cleanup(prob)


def finish(ctx, nontrivial=True):
    ctx.acc.count('comp:' + ctx.comp)
    if not ctx.bad:
        ctx.acc.ok(ctx.fp, nontrivial=nontrivial,
                   sample=({'comp': ctx.comp, 'opts': ctx.case['opts']} if ctx.acc.judged % 41 == 0 else None))


# ----------------------------------------------------------------------------------------------
# AddSubtractComp
# ----------------------------------------------------------------------------------------------
def gen_addsub(rng):
    neq = int(pick(rng, [1, 1, 2, 3]))
    eqs = []
    pool = {}   # name -> (vec_size, length, units, src_units)
    for e in range(neq):
        vs, ln = int(rng.integers(1, 5)), int(pick(rng, [1, 1, 2, 3]))
        u, su = units_pair(rng)
        nin = int(rng.integers(2, 5))
        names = []
        for j in range(nin):
            same = [n for n, t in pool.items() if t[:3] == (vs, ln, u) and n not in names]
            if same and rng.random() < 0.35:
                names.append(str(pick(rng, same)))
            else:
                n = 'in%d' % len(pool)
                usrc = u if u is None else units_pair_src(rng, u)
                pool[n] = (vs, ln, u, usrc)
                names.append(n)
        sf = None if rng.random() < 0.3 else [float(pick(rng, [1.0, -1.0, 2.5, -0.5, 0.0, 3.0])) for _ in names]
        eqs.append({'out': 'res%d' % e, 'ins': names, 'vec_size': vs, 'length': ln, 'units': u, 'sf': sf})
    ctor = neq == 1 and rng.random() < 0.4
    opts = {'eqs': eqs, 'ctor': bool(ctor), 'complex': bool(rng.random() < 0.15)}
    vals = {n: rnd(rng, (t[0],) if t[1] == 1 else (t[0], t[1])).tolist() for n, t in pool.items()}
    return {'comp': 'AddSubtractComp', 'opts': opts, 'pool': {n: list(t) for n, t in pool.items()}, 'vals': vals,
            'mode': str(pick(rng, ['fwd', 'rev']))}


def units_pair_src(rng, u):
    cands = [a for (a, b) in UNIT_CONV if b == u and UNIT_CONV[(a, b)][1] == 0.0]
    return str(pick(rng, cands)) if cands and rng.random() < 0.6 else u


def spec_addsub(case):
    import openmdao.api as om
    o = case['opts']
    eqs = o['eqs']
    names = list(case['pool'])
    ins = []
    for n in names:
        vs, ln, u, su = case['pool'][n]
        ins.append(_inp(n, (vs,) if ln == 1 else (vs, ln), case['vals'][n], u, su))
    outs = [{'name': e['out'], 'shape': [e['vec_size']] if e['length'] == 1 else [e['vec_size'], e['length']],
             'units': e['units']} for e in eqs]

    def add_item(c, e):
        c.add_equation(e['out'], list(e['ins']), vec_size=e['vec_size'], length=e['length'],
                       scaling_factors=e['sf'], units=e['units'])

    def make():
        kw = {'complex': True} if o['complex'] else {}
        rest = eqs
        if o['ctor']:
            e = eqs[0]
            c = om.AddSubtractComp(output_name=e['out'], input_names=list(e['ins']), vec_size=e['vec_size'],
                                   length=e['length'], scaling_factors=e['sf'], units=e['units'])
            if o['complex']:
                c.options['complex'] = True
            rest = eqs[1:]
        else:
            c = om.AddSubtractComp(**kw)
        for e in rest:
            add_item(c, e)
        return c

    def ref(xs):
        d = dict(zip(names, xs))
        return [R.add_subtract([d[n] for n in e['ins']], e['sf']) for e in eqs]

    def extend(rng):
        c2 = copy.deepcopy(case)
        pool, eqs2 = c2['pool'], c2['opts']['eqs']
        if rng.random() < 0.6:
            e0 = pick(rng, eqs2)
            vs, ln, u = e0['vec_size'], e0['length'], e0['units']
        else:
            vs, ln = int(rng.integers(1, 5)), int(pick(rng, [1, 1, 2, 3]))
            u = units_pair(rng)[0]
        nm = []
        for j in range(int(rng.integers(2, 4))):
            same = [n for n, t in pool.items() if tuple(t[:3]) == (vs, ln, u) and n not in nm]
            if same and rng.random() < 0.5:
                nm.append(str(pick(rng, same)))
            else:
                n = 'xin%d' % len(pool)
                pool[n] = [vs, ln, u, u if u is None else units_pair_src(rng, u)]
                c2['vals'][n] = rnd(rng, (vs,) if ln == 1 else (vs, ln)).tolist()
                nm.append(n)
        sf = None if rng.random() < 0.3 else [float(pick(rng, [1.0, -1.0, 2.5, -0.5, 0.0, 3.0])) for _ in nm]
        e = {'out': 'xres%d' % len(eqs2), 'ins': nm, 'vec_size': vs, 'length': ln, 'units': u, 'sf': sf}
        eqs2.append(e)
        return c2, e

    return {'ins': ins, 'outs': outs, 'make': make, 'ref': ref, 'add_item': add_item, 'extend': extend}


def judge_addsub(case, acc, seed):
    o = case['opts']
    eqs = o['eqs']
    shared = len(set(n for e in eqs for n in e['ins'])) < sum(len(e['ins']) for e in eqs)
    oc = ('multi' if len(eqs) > 1 else 'single') + ('+shared' if shared else '') + \
         ('+units' if any(e['units'] for e in eqs) else '') + ('+ctor' if o['ctor'] else '')
    ctx = Ctx(case, acc, 'AddSubtractComp', oc)
    if not run_flow(ctx, spec_addsub, seed):
        return
    if len(eqs) > 1:
        acc.count('cell:multi')
    if shared:
        acc.count('cell:shared-input')
    finish(ctx)


# ----------------------------------------------------------------------------------------------
# MuxComp
# ----------------------------------------------------------------------------------------------
def gen_mux(rng):
    vs = int(rng.integers(1, 5))
    nv = int(pick(rng, [1, 1, 2]))
    vars_ = []
    for k in range(nv):
        shp = pick(rng, [(1,), (2,), (3,), (2, 2), (2, 3), (3, 1), (2, 1, 2)])
        axis = int(rng.integers(0, len(shp) + 1))
        u, su = units_pair(rng)
        vars_.append({'name': 'v%d' % k, 'shape': list(shp), 'axis': axis, 'units': u, 'src_units': su,
                      'by_val': bool(rng.random() < 0.3)})
    vals = {'%s_%d' % (v['name'], i): rnd(rng, v['shape']).tolist() for v in vars_ for i in range(vs)}
    for v in vars_:
        # 1-D inputs: `shape` given as a plain int ("shape : int or tuple or list or None"); derived from an
        # existing draw so that the random stream of the other cases is unchanged
        v['shape_int'] = bool(len(v['shape']) == 1 and not v['by_val'] and
                              int(round(abs(float(np.ravel(vals[v['name'] + '_0'])[0])) * 1e6)) % 2 == 0)
    return {'comp': 'MuxComp', 'opts': {'vec_size': vs, 'vars': vars_}, 'vals': vals,
            'mode': str(pick(rng, ['fwd', 'rev']))}


def spec_mux(case):
    import openmdao.api as om
    o = case['opts']
    vs = o['vec_size']
    ins, outs = [], []
    for v in o['vars']:
        for i in range(vs):
            n = '%s_%d' % (v['name'], i)
            ins.append(_inp(n, v['shape'], case['vals'][n], v['units'], v['src_units']))
        shp = list(v['shape'])
        shp.insert(v['axis'], vs)
        outs.append({'name': v['name'], 'shape': shp, 'units': v['units']})

    def add_item(c, v):
        if v['by_val']:
            c.add_var(v['name'], val=np.ones(tuple(v['shape'])), axis=v['axis'], units=v['units'])
        elif v.get('shape_int'):
            c.add_var(v['name'], shape=int(v['shape'][0]), axis=v['axis'], units=v['units'])
        else:
            c.add_var(v['name'], shape=tuple(v['shape']), axis=v['axis'], units=v['units'])

    def make():
        c = om.MuxComp(vec_size=vs)
        for v in o['vars']:
            add_item(c, v)
        return c

    def ref(xs):
        out, k = [], 0
        for v in o['vars']:
            out.append(R.mux(xs[k:k + vs], v['axis']))
            k += vs
        return out

    def extend(rng):
        c2 = copy.deepcopy(case)
        shp = pick(rng, [(1,), (2,), (3,), (2, 2), (2, 3), (3, 1), (2, 1, 2)])
        u, su = units_pair(rng)
        v = {'name': 'xv%d' % len(c2['opts']['vars']), 'shape': list(shp), 'axis': int(rng.integers(0, len(shp) + 1)),
             'units': u, 'src_units': su, 'by_val': bool(rng.random() < 0.3)}
        v['shape_int'] = bool(len(shp) == 1 and not v['by_val'] and rng.random() < 0.5)
        for i in range(vs):
            c2['vals']['%s_%d' % (v['name'], i)] = rnd(rng, shp).tolist()
        c2['opts']['vars'].append(v)
        return c2, v

    return {'ins': ins, 'outs': outs, 'make': make, 'ref': ref, 'add_item': add_item, 'extend': extend}


def judge_mux(case, acc, seed):
    o = case['opts']
    oc = 'ndim%d' % max(len(v['shape']) for v in o['vars']) + ('+multi' if len(o['vars']) > 1 else '')
    if any(v.get('shape_int') for v in o['vars']):
        oc = 'int-shape'      # input shape given as a plain int
        acc.count('cell:mux-int-shape')
    if any(v['by_val'] for v in o['vars']):
        oc = 'array-val'      # input shape given through an array `val` instead of `shape`
        acc.count('cell:mux-array-val')
    ctx = Ctx(case, acc, 'MuxComp', oc)
    if not run_flow(ctx, spec_mux, seed):
        return
    if len(o['vars']) > 1:
        acc.count('cell:multi')
    finish(ctx)


# ----------------------------------------------------------------------------------------------
# products: DotProductComp, CrossProductComp, MatrixVectorProductComp, VectorMagnitudeComp
# ----------------------------------------------------------------------------------------------
def gen_products(rng, comp):
    vs = int(rng.integers(1, 5))
    if comp == 'DotProductComp':
        dims = {'length': int(rng.integers(1, 5))}
    elif comp == 'MatrixVectorProductComp':
        dims = {'A_shape': [int(rng.integers(1, 5)), int(rng.integers(1, 5))]}
    elif comp == 'VectorMagnitudeComp':
        dims = {'length': int(rng.integers(1, 5))}
    else:
        dims = {}
    nprod = int(pick(rng, [1, 1, 2, 3]))
    pool = {}     # input name -> (role, units, src_units)
    prods = []
    two = comp != 'VectorMagnitudeComp'
    roles = ('A', 'x') if comp == 'MatrixVectorProductComp' else (('a', 'b') if two else ('a',))
    custom = rng.random() < 0.5
    for k in range(nprod):
        names = []
        for role in roles:
            same = [n for n, t in pool.items() if t[0] == role and n not in names]
            if same and rng.random() < 0.4:
                names.append(str(pick(rng, same)))
            else:
                if k == 0 and not custom:
                    n = {'a': 'a', 'b': 'b', 'A': 'A', 'x': 'x'}[role] if two else 'a'
                else:
                    n = '%s%d' % (role.lower() + 'in', len(pool))
                u, su = units_pair(rng)
                pool[n] = (role, u, su)
                names.append(n)
        if comp == 'VectorMagnitudeComp':
            out = 'a_mag' if (k == 0 and not custom) else 'mag%d' % k
            ou = pool[names[0]][1]
        else:
            dflt = 'b' if comp == 'MatrixVectorProductComp' else 'c'
            out = dflt if (k == 0 and not custom) else 'out%d' % k
            ou = str(pick(rng, UNITS)) if rng.random() < 0.3 else None
        prods.append({'out': out, 'ins': names, 'out_units': ou})
    opts = {'vec_size': vs, 'prods': prods, 'custom_first': bool(custom)}
    opts.update(dims)
    vals = {}
    for n, t in pool.items():
        if comp == 'DotProductComp' or comp == 'VectorMagnitudeComp':
            shp = (vs, dims['length'])
        elif comp == 'CrossProductComp':
            shp = (vs, 3) if vs > 1 else (3,)
        else:
            shp = (vs, dims['A_shape'][0], dims['A_shape'][1]) if t[0] == 'A' else (vs, dims['A_shape'][1])
        v = rnd(rng, shp)
        if comp == 'VectorMagnitudeComp':
            # keep away from the origin (non-differentiable point of the norm)
            nrm = np.sqrt(np.sum(v * v, axis=-1, keepdims=True))
            v = np.where(nrm < 0.2, v + 0.5, v)
        vals[n] = v.tolist()
    return {'comp': comp, 'opts': opts, 'pool': {n: list(t) for n, t in pool.items()}, 'vals': vals,
            'mode': str(pick(rng, ['fwd', 'rev']))}


def _prod_shape(comp, o, role):
    vs = o['vec_size']
    if comp in ('DotProductComp', 'VectorMagnitudeComp'):
        return (vs, o['length'])
    if comp == 'CrossProductComp':
        return (vs, 3) if vs > 1 else (3,)
    return (vs, o['A_shape'][0], o['A_shape'][1]) if role == 'A' else (vs, o['A_shape'][1])


def spec_products(case):
    import openmdao.api as om
    comp = case['comp']
    o = case['opts']
    vs = o['vec_size']
    prods = o['prods']
    names = list(case['pool'])
    pool = case['pool']
    ins = []
    for n in names:
        role, u, su = pool[n]
        ins.append(_inp(n, np.shape(case['vals'][n]), case['vals'][n], u, su,
                        kind='vmag' if comp == 'VectorMagnitudeComp' else 'std'))
    outs = []
    for p in prods:
        if comp in ('DotProductComp', 'VectorMagnitudeComp'):
            shp = [vs]
        elif comp == 'CrossProductComp':
            shp = [vs, 3] if vs > 1 else [3]
        else:
            shp = [vs, o['A_shape'][0]] if vs > 1 else [o['A_shape'][0]]
        outs.append({'name': p['out'], 'shape': shp, 'units': p['out_units']})

    def add_item(c, p):
        if comp == 'DotProductComp':
            c.add_product(p['out'], a_name=p['ins'][0], b_name=p['ins'][1], c_units=p['out_units'],
                          a_units=pool[p['ins'][0]][1], b_units=pool[p['ins'][1]][1], vec_size=vs,
                          length=o['length'])
        elif comp == 'CrossProductComp':
            c.add_product(p['out'], a_name=p['ins'][0], b_name=p['ins'][1], c_units=p['out_units'],
                          a_units=pool[p['ins'][0]][1], b_units=pool[p['ins'][1]][1], vec_size=vs)
        elif comp == 'MatrixVectorProductComp':
            c.add_product(p['out'], A_name=p['ins'][0], x_name=p['ins'][1], b_units=p['out_units'],
                          A_units=pool[p['ins'][0]][1], x_units=pool[p['ins'][1]][1], vec_size=vs,
                          A_shape=tuple(o['A_shape']))
        else:
            c.add_magnitude(p['out'], p['ins'][0], units=pool[p['ins'][0]][1], vec_size=vs,
                            length=o['length'])

    def make():
        p0 = prods[0]
        if comp == 'DotProductComp':
            kw = dict(vec_size=vs, length=o['length'])
            if o['custom_first']:
                kw.update(a_name=p0['ins'][0], b_name=p0['ins'][1], c_name=p0['out'])
            kw.update(a_units=pool[p0['ins'][0]][1], b_units=pool[p0['ins'][1]][1], c_units=p0['out_units'])
            c = om.DotProductComp(**kw)
        elif comp == 'CrossProductComp':
            kw = dict(vec_size=vs)
            if o['custom_first']:
                kw.update(a_name=p0['ins'][0], b_name=p0['ins'][1], c_name=p0['out'])
            kw.update(a_units=pool[p0['ins'][0]][1], b_units=pool[p0['ins'][1]][1], c_units=p0['out_units'])
            c = om.CrossProductComp(**kw)
        elif comp == 'MatrixVectorProductComp':
            kw = dict(vec_size=vs, A_shape=tuple(o['A_shape']))
            if o['custom_first']:
                kw.update(A_name=p0['ins'][0], x_name=p0['ins'][1], b_name=p0['out'])
            kw.update(A_units=pool[p0['ins'][0]][1], x_units=pool[p0['ins'][1]][1], b_units=p0['out_units'])
            c = om.MatrixVectorProductComp(**kw)
        else:
            kw = dict(vec_size=vs, length=o['length'], units=pool[p0['ins'][0]][1])
            if o['custom_first']:
                kw.update(in_name=p0['ins'][0], mag_name=p0['out'])
            c = om.VectorMagnitudeComp(**kw)
        for p in prods[1:]:
            add_item(c, p)
        return c

    def ref(xs):
        d = dict(zip(names, xs))
        out = []
        for p, od in zip(prods, outs):
            if comp == 'DotProductComp':
                r = R.dot_product(d[p['ins'][0]], d[p['ins'][1]])
            elif comp == 'CrossProductComp':
                r = R.cross_product(d[p['ins'][0]], d[p['ins'][1]])
            elif comp == 'MatrixVectorProductComp':
                r = R.matrix_vector_product(d[p['ins'][0]], d[p['ins'][1]])
            else:
                r = R.vector_magnitude(d[p['ins'][0]])
            out.append(np.reshape(r, od['shape']))
        return out

    def extend(rng):
        c2 = copy.deepcopy(case)
        pool2 = c2['pool']
        roles = ('A', 'x') if comp == 'MatrixVectorProductComp' else \
            (('a', 'b') if comp != 'VectorMagnitudeComp' else ('a',))
        nm = []
        for role in roles:
            same = [n for n, t in pool2.items() if t[0] == role and n not in nm]
            if same and rng.random() < 0.4:
                nm.append(str(pick(rng, same)))
            else:
                n = 'x%sin%d' % (role.lower(), len(pool2))
                u, su = units_pair(rng)
                pool2[n] = [role, u, su]
                v = rnd(rng, _prod_shape(comp, o, role))
                if comp == 'VectorMagnitudeComp':
                    nrm = np.sqrt(np.sum(v * v, axis=-1, keepdims=True))
                    v = np.where(nrm < 0.2, v + 0.5, v)
                c2['vals'][n] = v.tolist()
                nm.append(n)
        if comp == 'VectorMagnitudeComp':
            ou = pool2[nm[0]][1]
        else:
            ou = str(pick(rng, UNITS)) if rng.random() < 0.3 else None
        p = {'out': 'xout%d' % len(c2['opts']['prods']), 'ins': nm, 'out_units': ou}
        c2['opts']['prods'].append(p)
        return c2, p

    return {'ins': ins, 'outs': outs, 'make': make, 'ref': ref, 'add_item': add_item, 'extend': extend}


def judge_products(case, acc, seed):
    comp = case['comp']
    o = case['opts']
    vs = o['vec_size']
    prods = o['prods']
    shared = len(set(n for p in prods for n in p['ins'])) < sum(len(p['ins']) for p in prods)
    anyu = any(t[1] for t in case['pool'].values())
    oc = ('vec1' if vs == 1 else 'vecN') + ('+multi' if len(prods) > 1 else '') + \
         ('+shared' if shared else '') + ('+units' if anyu else '')
    ctx = Ctx(case, acc, comp, oc)
    if not run_flow(ctx, spec_products, seed):
        return
    if len(prods) > 1:
        acc.count('cell:multi')
    if shared:
        acc.count('cell:shared-input')
    finish(ctx)


# ----------------------------------------------------------------------------------------------
# EQConstraintComp
# ----------------------------------------------------------------------------------------------
def _rhs_vals(rng, shape):
    """rhs values in both normalization regimes, 0.05 away from |rhs| = 2."""
    v = np.where(rng.random(size=shape) < 0.5, rng.uniform(-1.9, 1.9, size=shape),
                 rng.uniform(2.1, 6.0, size=shape) * np.where(rng.random(size=shape) < 0.5, -1, 1))
    return np.round(v, 6)


def gen_eq(rng, comp):
    n = int(pick(rng, [1, 1, 2]))
    outs = []
    for k in range(n):
        shp = pick(rng, [(1,), (1,), (3,), (4,), (2, 2)])
        u, su = units_pair(rng)
        use_mult = bool(rng.random() < 0.5)
        o = {'name': 'q%d' % k, 'shape': list(shp), 'eq_units': u, 'src_units': su, 'use_mult': use_mult,
             'normalize': bool(rng.random() < 0.6), 'custom_names': bool(rng.random() < 0.3),
             'rhs_val': float(np.round(rng.uniform(-4, 4), 3)) if rng.random() < 0.6 else 0.0,
             'mult_val': float(np.round(rng.uniform(0.5, 3), 3)) if rng.random() < 0.5 else 1.0,
             'connect_rhs': bool(rng.random() < 0.6), 'connect_mult': bool(rng.random() < 0.6),
             'shape_by': str(pick(rng, ['shape', 'val'])), 'add_constraint': bool(rng.random() < 0.2)}
        if abs(abs(o['rhs_val']) - 2.0) < 0.05:
            o['rhs_val'] = 1.0
        if comp == 'BalanceComp':
            o['rhs_array'] = bool(rng.random() < 0.3 and len(shp) == 1)
        o['lhs'] = rnd(rng, shp, -5, 5).tolist()
        o['rhs'] = _rhs_vals(rng, shp).tolist()
        o['mult'] = rnd(rng, shp, 0.3, 3).tolist()
        o['state'] = rnd(rng, shp, -3, 3).tolist()
        # BalanceComp: hand the equation units over through lhs_kwargs/rhs_kwargs instead of eq_units
        # (derived from an existing draw so that the random stream of the other cases is unchanged)
        o['units_by_kwargs'] = bool(comp == 'BalanceComp' and
                                    int(round(abs(float(np.ravel(o['state'])[0])) * 1e6)) % 2 == 0)
        outs.append(o)
    return {'comp': comp, 'opts': {'outs': outs, 'ctor': bool(n == 1 and rng.random() < 0.4)},
            'mode': str(pick(rng, ['fwd', 'rev'])), 'solve': {'a': float(np.round(rng.uniform(0.5, 3), 3)),
                                                              'b': float(np.round(rng.uniform(-2, 2), 3))}}


def _eq_names(o):
    if o['custom_names']:
        return 'L_' + o['name'], 'R_' + o['name'], 'M_' + o['name']
    return 'lhs:' + o['name'], 'rhs:' + o['name'], 'mult:' + o['name']


def _eq_optclass(outs):
    """Mechanism-relevant option class: normalization on/off, N-D variables, multiplier."""
    f = []
    if any(o['normalize'] for o in outs):
        f.append('normalize')
    if any(len(o['shape']) > 1 for o in outs):
        f.append('nd')
    if any(o['use_mult'] for o in outs):
        f.append('mult')
    return '+'.join(f) or 'plain'


def _ext_eq_output(case, rng, comp):
    """One more equation for EQConstraintComp / BalanceComp (a fresh gen_eq draw under a new name)."""
    c2 = copy.deepcopy(case)
    o = gen_eq(rng, comp)['opts']['outs'][0]
    o['name'] = 'xq%d' % len(c2['opts']['outs'])
    c2['opts']['outs'].append(o)
    return c2, o


def spec_eqconstraint(case):
    import openmdao.api as om
    outs_o = case['opts']['outs']
    ins, outs, layout = [], [], []
    for o in outs_o:
        ln, rn, mn = _eq_names(o)
        shp = o['shape']
        ins.append(_inp(ln, shp, o['lhs'], o['eq_units'], o['src_units'], kind='lhs'))
        if o['connect_rhs']:
            ins.append(_inp(rn, shp, o['rhs'], o['eq_units'], o['src_units'], kind='rhs'))
        else:
            ins.append(_inp(rn, shp, o['rhs_val'] * np.ones(shp), o['eq_units'], None, connected=False, kind='rhs'))
        if o['use_mult']:
            if o['connect_mult']:
                ins.append(_inp(mn, shp, o['mult'], None, None, kind='mult'))
            else:
                ins.append(_inp(mn, shp, o['mult_val'] * np.ones(shp), None, None, connected=False, kind='mult'))
        layout.append(3 if o['use_mult'] else 2)
        outs.append({'name': o['name'], 'shape': shp, 'units': None})

    def kwargs(o):
        ln, rn, mn = _eq_names(o)
        kw = dict(eq_units=o['eq_units'], rhs_val=o['rhs_val'], use_mult=o['use_mult'], mult_val=o['mult_val'],
                  normalize=o['normalize'], add_constraint=o['add_constraint'])
        if o['custom_names']:
            kw.update(lhs_name=ln, rhs_name=rn, mult_name=mn)
        if o['shape_by'] == 'shape':
            kw['shape'] = tuple(o['shape'])
        else:
            kw['val'] = np.ones(tuple(o['shape']))
        return kw

    def add_item(c, o):
        c.add_eq_output(o['name'], **kwargs(o))

    def make():
        if case['opts']['ctor']:
            c = om.EQConstraintComp(outs_o[0]['name'], **kwargs(outs_o[0]))
            rest = outs_o[1:]
        else:
            c = om.EQConstraintComp()
            rest = outs_o
        for o in rest:
            add_item(c, o)
        return c

    def ref(xs):
        res, k = [], 0
        for o, n in zip(outs_o, layout):
            lhs, rhs = xs[k], xs[k + 1]
            mult = xs[k + 2] if n == 3 else None
            res.append(R.eq_constraint(lhs, rhs, mult, o['normalize']))
            k += n
        return res

    return {'ins': ins, 'outs': outs, 'make': make, 'ref': ref, 'add_item': add_item,
            'extend': lambda rng: _ext_eq_output(case, rng, 'EQConstraintComp')}


def judge_eqconstraint(case, acc, seed):
    outs_o = case['opts']['outs']
    ctx = Ctx(case, acc, 'EQConstraintComp', _eq_optclass(outs_o))
    if not run_flow(ctx, spec_eqconstraint, seed):
        return
    if len(outs_o) > 1:
        acc.count('cell:multi')
    finish(ctx)


# ----------------------------------------------------------------------------------------------
# BalanceComp: residual + partials of the stand-alone component, then a Newton solve against y = a*x + b
# ----------------------------------------------------------------------------------------------
def judge_balance(case, acc, seed):
    import openmdao.api as om
    outs_o = case['opts']['outs']
    hist = case.get('hist')
    ctor_kwargs = bool(case['opts']['ctor'] and outs_o[0].get('units_by_kwargs'))
    ctx = Ctx(case, acc, 'BalanceComp', 'ctor-kwargs' if ctor_kwargs else _eq_optclass(outs_o))
    if ctor_kwargs:
        acc.count('cell:balance-ctor-kwargs')
    guess_calls = []

    def guess(inputs, outputs, residuals):
        guess_calls.append(1)

    def kwargs(o):
        ln, rn, mn = _eq_names(o)
        rhs_val = o['rhs_val'] * np.ones(tuple(o['shape'])) if o.get('rhs_array') else o['rhs_val']
        kw = dict(eq_units=o['eq_units'], rhs_val=rhs_val, use_mult=o['use_mult'], mult_val=o['mult_val'],
                  normalize=o['normalize'])
        if o['custom_names']:
            kw.update(lhs_name=ln, rhs_name=rn, mult_name=mn)
        if o.get('units_by_kwargs'):
            kw.pop('eq_units')
            kw['lhs_kwargs'] = {'units': o['eq_units']}
            kw['rhs_kwargs'] = {'units': o['eq_units']}
        if o.get('rhs_array'):
            pass                      # shape comes from rhs_val
        elif o['shape_by'] == 'shape':
            kw['shape'] = tuple(o['shape'])
        else:
            kw['val'] = np.ones(tuple(o['shape']))
        return kw

    def make(with_guess=False):
        ckw = {'guess_func': guess} if with_guess else {}
        if case['opts']['ctor']:
            return om.BalanceComp(outs_o[0]['name'], **kwargs(outs_o[0]), **ckw)
        c = om.BalanceComp(**ckw)
        for o in outs_o:
            c.add_balance(o['name'], **kwargs(o))
        return c

    def layout(outs_l):
        """inputs of the component in order: dicts(name, shape, val, units, src_units, connected, kind)"""
        items = []
        for o in outs_l:
            ln, rn, mn = _eq_names(o)
            shp = tuple(o['shape'])
            items.append(_inp(ln, shp, o['lhs'], o['eq_units'], o['src_units'], True, 'lhs'))
            items.append(_inp(rn, shp, o['rhs'] if o['connect_rhs'] else o['rhs_val'] * np.ones(shp), o['eq_units'],
                              o['src_units'] if o['connect_rhs'] else None, o['connect_rhs'], 'rhs'))
            if o['use_mult']:
                items.append(_inp(mn, shp, o['mult'] if o['connect_mult'] else o['mult_val'] * np.ones(shp), None,
                                  None, o['connect_mult'], 'mult'))
        return items

    def wire(prob, ivc, items, start=0):
        for k, i in enumerate(items):
            if k >= start and i['connected']:
                ivc.add_output('v%d' % k, val=np.ones(i['shape']), units=i['src_units'])
                prob.model.connect('ivc.v%d' % k, 'bal.' + i['name'])

    def put(prob, items, xs, which=None):
        for k, i in enumerate(items):
            if i['connected'] and (which is None or k in which):
                fac, off = conv(i['src_units'], i['units'])
                prob.set_val('ivc.v%d' % k, xs[k] / fac - off)

    def ref_of(outs_l):
        def ref(a):
            res, k = [], 0
            for o in outs_l:
                n = 3 if o['use_mult'] else 2
                res.append(R.balance_residual(a[k], a[k + 1], a[k + 2] if n == 3 else None, o['normalize']))
                k += n
            return res
        return ref

    def judge(tag, prob, bal, outs_l, items, xs, sd):
        pre = '' if tag == 'first' else tag + ':'
        prob.model.run_apply_nonlinear()
        prob.model.run_linearize()
        o0, J0, Do, DJ = perturbed_spread(ref_of(outs_l), xs, sd)
        for k, i in enumerate(items):
            n = i['name']
            got = np.asarray(prob.get_val('bal.' + n), dtype=float)
            if got.size != xs[k].size or not np.allclose(got.reshape(xs[k].shape), xs[k], rtol=1e-12, atol=1e-13):
                if i['connected']:
                    raise RuntimeError('harness: input %s not delivered' % n)
                ctx.viol(pre + 'default-input-value', 'unconnected input %s has value %s, documented default %s'
                         % (n, got.ravel()[:4], xs[k].ravel()[:4]))
        for oi, o in enumerate(outs_l):
            acc.count('obs:residual')
            res = np.asarray(bal._residuals[o['name']], dtype=float)
            _cmp(ctx, pre + 'residual', 'residual ' + o['name'], res, o0[oi], tol_of(o0[oi], Do[oi]))
            for k, i in enumerate(items):
                n = i['name']
                ref_j = J0[oi][k]
                sj = dense_subjac(bal, o['name'], n)
                acc.count('obs:partials')
                if sj is None:
                    if np.any(ref_j != 0):
                        ctx.viol(pre + 'partials-undeclared-nonzero',
                                 'dR_%s/d%s not declared but nonzero' % (o['name'], n))
                else:
                    _cmp(ctx, pre + 'partials', 'partial dR_%s/d%s' % (o['name'], n), sj, ref_j,
                         tol_of(ref_j, DJ[oi][k]) + 16 * EPS * np.abs(ref_j))
            sj = dense_subjac(bal, o['name'], o['name'])
            if sj is not None and np.any(sj != 0):
                ctx.viol(pre + 'partials-state-nonzero',
                         'dR/dstate should be zero (residual does not depend on the state)')

    # ---- part 1: residuals and partials
    prob = None
    tag = 'first'
    try:
        try:
            prob = om.Problem()
            ivc = prob.model.add_subsystem('ivc', om.IndepVarComp())
            bal = prob.model.add_subsystem('bal', make())
            items = layout(outs_o)
            xs = [np.array(i['val'], dtype=float).reshape(i['shape']) for i in items]
            wire(prob, ivc, items)
            ivc.add_output('unused', 1.0)
            prob.setup()
            put(prob, items, xs)
            for o in outs_o:
                prob.set_val('bal.' + o['name'], np.array(o['state']).reshape(tuple(o['shape'])))
            prob.run_model()
            prob.model.run_apply_nonlinear()
            prob.model.run_linearize()
        except Exception as e:
            ctx.viol('raises:' + type(e).__name__, '%s: %s' % (type(e).__name__, str(e)[:300]))
            finish(ctx)
            return
        judge('first', prob, bal, outs_o, items, xs, seed)
        if any(not i['connected'] for i in items):
            acc.count('cell:default-input')
        if any(i['connected'] and i['units'] != i['src_units'] for i in items):
            acc.count('cell:units')
        if hist and not ctx.bad:
            acc.count('hist-comp:BalanceComp')
            hrng = np.random.default_rng([hist['hseed'], 1])
            spec_l = {'ins': items}
            tag = 'rerun'
            outs_l = outs_o
            for r in range(hist['rounds'] + (2 if hist['resetup'] else 0)):
                if r == hist['rounds']:
                    # second setup of the same problem, possibly with one more balance on the same instance
                    tag = 'resetup'
                    if hist['extend']:
                        case2, o_new = _ext_eq_output(case, np.random.default_rng([hist['hseed'], 2]), 'BalanceComp')
                        bal.add_balance(o_new['name'], **kwargs(o_new))
                        n_old = len(items)
                        outs_l = case2['opts']['outs']
                        items = layout(outs_l)
                        wire(prob, ivc, items, start=n_old)
                        spec_l = {'ins': items}
                        acc.count('hist:resetup-extended')
                    prob.setup(mode='fwd' if hist['flip'] else 'rev')
                    xs = [np.array(i['val'], dtype=float).reshape(i['shape']) for i in items]
                    which = set(k for k, i in enumerate(items) if i['connected'])
                    acc.count('hist:resetup')
                else:
                    which = set(k for k, i in enumerate(items)
                                if i['connected'] and (not hist['subset'] or hrng.random() < 0.6))
                new = _redraw(spec_l, xs, hrng, which)
                if new is None:
                    acc.count('hist:round-outside-domain')
                    new = xs
                    which = set()
                put(prob, items, new, which)
                if tag == 'resetup' or hrng.random() < 0.7:
                    for o in outs_l:
                        prob.set_val('bal.' + o['name'], rnd(hrng, tuple(o['shape']), -3, 3))
                prob.run_model()
                if tag == 'rerun':
                    acc.count('hist:rerun')
                xs = new
                judge(tag, prob, bal, outs_l, items, xs, seed + 31 * (r + 1))
                if ctx.bad:
                    break
    except Exception as e:
        if tag == 'first' or str(e).startswith('harness:'):
            raise
        ctx.viol(tag + ':raises:' + type(e).__name__, '%s: %s' % (type(e).__name__, str(e)[:300]))
    finally:
        if prob is not None:
            _cleanup(prob)
    # ---- part 2: the documented use: drive lhs = a*x + b to rhs with Newton; x* = (rhs/mult - b)/a
    o = outs_o[0]
    a, b = case['solve']['a'], case['solve']['b']
    shp = tuple(o['shape'])
    ln, rn, mn = _eq_names(o)
    smode = case['mode'] if hist else None
    p = None
    tag = 'solve'
    try:
        try:
            p = om.Problem()
            iv = p.model.add_subsystem('ivc', om.IndepVarComp())
            iv.add_output('r', val=np.ones(shp), units=o['eq_units'])
            if o['use_mult']:
                iv.add_output('m', val=np.ones(shp))
            c2 = om.BalanceComp(guess_func=guess)
            kw = dict(eq_units=o['eq_units'], use_mult=o['use_mult'], normalize=o['normalize'], val=np.ones(shp))
            if o['custom_names']:
                kw.update(lhs_name=ln, rhs_name=rn, mult_name=mn)
            c2.add_balance(o['name'], **kw)
            p.model.add_subsystem('f', om.ExecComp('y = %r*x + %r' % (a, b), x=np.ones(shp),
                                                   y={'val': np.ones(shp), 'units': o['eq_units']}))
            p.model.add_subsystem('bal', c2)
            p.model.connect('bal.' + o['name'], 'f.x')
            p.model.connect('f.y', 'bal.' + ln)
            p.model.connect('ivc.r', 'bal.' + rn)
            if o['use_mult']:
                p.model.connect('ivc.m', 'bal.' + mn)
            p.model.linear_solver = om.DirectSolver()
            p.model.nonlinear_solver = om.NewtonSolver(solve_subsystems=False, maxiter=30, atol=1e-13, rtol=1e-13,
                                                       iprint=-1)
            if smode:
                p.setup(mode=smode)
            else:
                p.setup()
            rhs = np.array(o['rhs']).reshape(shp)
            mult = np.array(o['mult']).reshape(shp)
            p.set_val('ivc.r', rhs)
            if o['use_mult']:
                p.set_val('ivc.m', mult)
            p.run_model()
            x = np.asarray(p.get_val('bal.' + o['name']), dtype=float).reshape(shp)
        except Exception as e:
            ctx.viol('solve-raises:' + type(e).__name__, '%s: %s' % (type(e).__name__, str(e)[:300]))
            finish(ctx)
            return

        def judge_solved(pre, x, rhs, mult, ncalls_before):
            m_ = mult if o['use_mult'] else 1.0
            xref = (rhs / m_ - b) / a
            acc.count('obs:balance-solved')
            if len(guess_calls) <= ncalls_before:
                ctx.viol(pre + 'guess_func-not-called', 'guess_func was never invoked during the Newton solve')
            # the Newton residual tolerance 1e-13 on the (normalized) residual bounds the state error by
            # 1e-13 * f_norm / (|mult| a); compare with a 1e-9 absolute/relative band well above it
            if not np.all(np.isfinite(x)) or np.any(np.abs(x - xref) > 1e-9 * (1.0 + np.abs(xref))):
                ctx.viol(pre + 'solved-state', 'balance state %s, expected %s' % (x.ravel()[:4], np.ravel(xref)[:4]))
            if not pre:
                return
            # totals of the converged state: dx/drhs = 1/(mult a), dx/dmult = -rhs/(mult^2 a)  (diagonal);
            # they depend on the state only through the (<= 1e-13) residual, same band
            wrt = ['ivc.r'] + (['ivc.m'] if o['use_mult'] else [])
            tot = p.compute_totals(of=['bal.' + o['name']], wrt=wrt, return_format='flat_dict')
            refs = {'ivc.r': np.diag(np.ravel(1.0 / (m_ * a) * np.ones(shp)))}
            if o['use_mult']:
                refs['ivc.m'] = np.diag(np.ravel(-rhs / (m_ ** 2 * a)))
            for w in wrt:
                acc.count('obs:totals-' + smode)
                got = np.asarray(tot['bal.' + o['name'], w], dtype=float)
                if got.shape != refs[w].shape or not np.all(np.isfinite(got)) or \
                        np.any(np.abs(got - refs[w]) > 1e-9 * (1.0 + np.abs(refs[w]))):
                    ctx.viol(pre + 'solved-totals-' + smode, 'd state/d %s: %s' % (w, worst(got, refs[w])))

        judge_solved('', x, rhs, mult, 0)
        if hist and not ctx.bad:
            hrng = np.random.default_rng([hist['hseed'], 4])
            tag = 'resolve'
            for r in range(hist['rounds']):
                n0 = len(guess_calls)
                if (not o['use_mult']) or hrng.random() < 0.7:
                    rhs = _rhs_vals(hrng, shp)
                    p.set_val('ivc.r', rhs)
                if o['use_mult'] and hrng.random() < 0.7:
                    mult = rnd(hrng, shp, 0.3, 3)
                    p.set_val('ivc.m', mult)
                p.run_model()
                acc.count('hist:balance-resolve')
                x = np.asarray(p.get_val('bal.' + o['name']), dtype=float).reshape(shp)
                judge_solved('resolve:', x, rhs, mult, n0)
                if ctx.bad:
                    break
    except Exception as e:
        if tag == 'solve' or str(e).startswith('harness:'):
            raise
        ctx.viol(tag + ':raises:' + type(e).__name__, '%s: %s' % (type(e).__name__, str(e)[:300]))
    finally:
        if p is not None:
            _cleanup(p)
    if len(outs_o) > 1:
        acc.count('cell:multi')
    finish(ctx)


# ----------------------------------------------------------------------------------------------
# LinearSystemComp
# ----------------------------------------------------------------------------------------------
def gen_linsys(rng):
    size = int(rng.integers(1, 5))
    vs = int(rng.integers(1, 4))
    vecA = bool(rng.random() < 0.5)
    nA = vs if (vecA and vs > 1) else 1
    A = rnd(rng, (nA, size, size), -1, 1)
    for j in range(nA):
        A[j] += np.diag(np.sign(rng.uniform(-1, 1, size)) * (size + 0.5))   # well conditioned
    A = A if nA > 1 else A[0]
    b = rnd(rng, (vs, size) if vs > 1 else (size,))
    return {'comp': 'LinearSystemComp', 'opts': {'size': size, 'vec_size': vs, 'vectorize_A': vecA},
            'A': A.tolist(), 'b': b.tolist(), 'mode': str(pick(rng, ['fwd', 'rev']))}


def spec_linsys(case):
    import openmdao.api as om
    o = case['opts']
    size, vs, vecA = o['size'], o['vec_size'], o['vectorize_A']
    hist = case.get('hist')
    auto = bool(hist and hist.get('auto'))
    A = np.array(case['A'], dtype=float)
    b = np.array(case['b'], dtype=float)
    ins = [_inp('A', A.shape, A, kind='A'), _inp('b', b.shape, b)]
    for i in ins:
        i['auto'] = auto
    outs = [{'name': 'x', 'shape': list(b.shape), 'units': None}]

    def make():
        return om.LinearSystemComp(size=size, vec_size=vs, vectorize_A=vecA)

    def ref(a):
        return [R.linear_system_solve(a[0], a[1], vs, vecA)]

    def extra(ctx, pre, prob, ls, xs, seed):
        acc = ctx.acc
        A, b = xs
        xsol = R.linear_system_solve(A, b, vs, vecA)
        # residual at the solution is zero up to the conditioning-scaled round-off of the solve
        try:
            prob.model.run_apply_nonlinear()
            res = np.asarray(ls._residuals['x'], dtype=float).copy()
        except Exception as e:
            ctx.viol(pre + 'raises:' + type(e).__name__, '%s: %s' % (type(e).__name__, str(e)[:300]))
            return
        acc.count('obs:residual')
        rscale = np.max(np.abs(A)) * np.max(np.abs(xsol)) + np.max(np.abs(b))
        if not np.all(np.abs(res) <= 64 * EPS * size * rscale):
            ctx.viol(pre + 'residual-at-solution', 'residual %s after solve_nonlinear' % res.ravel()[:4])
        # partials of R = A x - b at a state that is NOT the solution
        xst = rnd(np.random.default_rng(seed + 17), b.shape)
        try:
            prob.set_val('c.x', xst)
            prob.model.run_apply_nonlinear()
            res = np.asarray(ls._residuals['x'], dtype=float).copy()
            prob.model.run_linearize()
        except Exception as e:
            ctx.viol(pre + 'linearize-raises:' + type(e).__name__, str(e)[:300])
            return

        def resid(a):
            return [R.linear_system_residual(a[0], a[1], a[2], vs, vecA)]

        r0, Jr, Dr, DJr = perturbed_spread(resid, [A, b, xst], seed + 1)
        _cmp(ctx, pre + 'residual', 'residual A x - b', res, r0[0], tol_of(r0[0], Dr[0]) + 64 * EPS * rscale)
        for k, n in enumerate(('A', 'b', 'x')):
            acc.count('obs:partials')
            sj = dense_subjac(ls, 'x', n)
            rj = Jr[0][k]
            if sj is None:
                ctx.viol(pre + 'partials-undeclared-nonzero', 'dR/d%s not declared' % n)
            else:
                _cmp(ctx, pre + 'partials', 'partial dR/d' + n, sj, rj, tol_of(rj, DJr[0][k]) + 16 * EPS * np.abs(rj))

    def on_rerun(ctx, which, old, new):
        if vs > 1 and 0 in which:
            ctx.acc.count('hist:linsys-vecN-new-A')

    def add_item(ls, o2):
        for k in ('size', 'vec_size', 'vectorize_A'):
            ls.options[k] = o2[k]

    def extend(rng):
        """other options for the second setup (possible when the inputs are not wired to an IndepVarComp)"""
        c2 = gen_linsys(rng)
        c2['mode'], c2['hist'], c2['seed'] = case['mode'], case.get('hist'), case.get('seed')
        return c2, c2['opts'], 'hist:linsys-resetup-options'

    return {'ins': ins, 'outs': outs, 'make': make, 'ref': ref, 'partials': False, 'extra': extra,
            'on_rerun': on_rerun, 'lnbgs_ok': True, 'add_item': add_item, 'extend': extend if auto else None}


def judge_linsys(case, acc, seed):
    o = case['opts']
    vs, vecA = o['vec_size'], o['vectorize_A']
    oc = ('vec1' if vs == 1 else 'vecN') + ('+vectorize_A' if vecA else '')
    ctx = Ctx(case, acc, 'LinearSystemComp', oc)
    if run_flow(ctx, spec_linsys, seed):
        finish(ctx)


# ----------------------------------------------------------------------------------------------
# SplineComp
# ----------------------------------------------------------------------------------------------
SPLINE_METHODS = ['slinear', 'lagrange2', 'lagrange3', 'cubic', 'akima', 'bsplines', 'scipy_slinear',
                  'scipy_cubic', 'scipy_quintic']


def _akima(x_cp, y, x):
    """Akima (1970) spline, complex-step safe in y (own implementation; cross-checked against SciPy)."""
    x_cp = np.asarray(x_cp, dtype=float)
    y = np.asarray(y)
    n = len(x_cp)
    m = np.zeros(n + 3, dtype=y.dtype)
    m[2:n + 1] = (y[1:] - y[:-1]) / (x_cp[1:] - x_cp[:-1])
    m[1] = 2 * m[2] - m[3]
    m[0] = 2 * m[1] - m[2]
    m[n + 1] = 2 * m[n] - m[n - 1]
    m[n + 2] = 2 * m[n + 1] - m[n]

    def cabs(v):
        return np.where(v.real < 0, -v, v)
    w1 = cabs(m[3:n + 3] - m[2:n + 2])
    w2 = cabs(m[1:n + 1] - m[0:n])
    t = (w1 * m[1:n + 1] + w2 * m[2:n + 2]) / (w1 + w2)
    out = np.zeros(len(x), dtype=y.dtype)
    for k, xv in enumerate(x):
        i = R._bracket(x_cp, xv)
        h = x_cp[i + 1] - x_cp[i]
        s = (xv - x_cp[i])
        c2 = (3 * m[i + 2] - 2 * t[i] - t[i + 1]) / h
        c3 = (t[i] + t[i + 1] - 2 * m[i + 2]) / h ** 2
        out[k] = y[i] + t[i] * s + c2 * s ** 2 + c3 * s ** 3
    return out


def gen_spline(rng, method=None):
    method = method or str(pick(rng, SPLINE_METHODS))
    vs = int(rng.integers(1, 4))
    nsp = int(pick(rng, [1, 1, 2]))
    opts = {'method': method, 'vec_size': vs}
    if method == 'bsplines':
        order = int(pick(rng, [2, 3, 4, 5]))
        n_cp = int(rng.integers(order + 1, order + 5))
        opts.update(num_cp=n_cp, order=order, default_order=bool(order == 4 and rng.random() < 0.5))
        lo = float(np.round(rng.uniform(-2, 2), 3))
        x = np.linspace(lo, lo + float(np.round(rng.uniform(0.5, 3), 3)), int(rng.integers(3, 9)))
        if rng.random() < 0.5:   # non-uniform interior points
            x[1:-1] = np.sort(np.round(rng.uniform(x[0] + 1e-3, x[-1] - 1e-3, size=len(x) - 2), 6))
        opts['x_interp'] = x.tolist()
    else:
        minpts = {'slinear': 2, 'lagrange2': 3, 'lagrange3': 4, 'cubic': 4, 'akima': 4, 'scipy_slinear': 2,
                  'scipy_cubic': 4, 'scipy_quintic': 6}[method]
        n_cp = int(rng.integers(minpts, minpts + 5))
        if rng.random() < 0.4:
            opts['num_cp'] = n_cp
            grid = np.linspace(0.0, 1.0, n_cp)
        else:
            steps = np.round(rng.uniform(0.2, 1.0, size=n_cp - 1), 4)
            start = float(np.round(rng.uniform(-3, 1), 3))
            grid = np.concatenate([[start], start + np.cumsum(steps)])
            opts['x_cp'] = grid.tolist()
        nx = int(rng.integers(1, 8))
        span = grid[-1] - grid[0]
        x = np.sort(np.round(rng.uniform(grid[0] + 1e-3 * span, grid[-1] - 1e-3 * span, size=nx), 6))
        if rng.random() < 0.3 and n_cp > 2:     # a point exactly on an interior node
            x[int(rng.integers(nx))] = grid[int(rng.integers(1, n_cp - 1))]
            x = np.sort(x)
        opts['x_interp'] = x.tolist()
    splines = []
    for k in range(nsp):
        u, su = units_pair(rng, 0.3)
        splines.append({'cp': 'ycp%d' % k, 'out': 'y%d' % k, 'units': u, 'src_units': su,
                        'y': rnd(rng, (vs, n_cp)).tolist(), 'give_val': bool(rng.random() < 0.5)})
    opts['splines'] = splines
    return {'comp': 'SplineComp', 'opts': opts, 'mode': str(pick(rng, ['fwd', 'rev']))}


def _new_x_interp(rng, method, grid):
    if method == 'bsplines':
        lo = float(np.round(rng.uniform(-2, 2), 3))
        x = np.linspace(lo, lo + float(np.round(rng.uniform(0.5, 3), 3)), int(rng.integers(3, 9)))
        if rng.random() < 0.5:   # non-uniform interior points
            x[1:-1] = np.sort(np.round(rng.uniform(x[0] + 1e-3, x[-1] - 1e-3, size=len(x) - 2), 6))
        return x
    span = grid[-1] - grid[0]
    return np.sort(np.round(rng.uniform(grid[0] + 1e-3 * span, grid[-1] - 1e-3 * span,
                                        size=int(rng.integers(1, 8))), 6))


def spec_spline(case):
    import openmdao.api as om
    o = case['opts']
    method, vs = o['method'], o['vec_size']
    x = np.array(o['x_interp'], dtype=float)
    if method == 'bsplines':
        grid = None
    elif 'x_cp' in o:
        grid = np.array(o['x_cp'], dtype=float)
    else:
        grid = np.linspace(0.0, 1.0, o['num_cp'])
    order = o.get('order', 4)

    def guard(xs):
        if method != 'akima':
            return None
        for y in xs:
            for row in np.asarray(y, dtype=float):
                mm = np.diff(row) / np.diff(grid)
                mm = np.concatenate([[2 * (2 * mm[0] - mm[1]) - mm[0], 2 * mm[0] - mm[1]], mm,
                                     [2 * mm[-1] - mm[-2], 2 * (2 * mm[-1] - mm[-2]) - mm[-1]]])
                if np.min(np.abs(np.diff(mm))) < 0.05:
                    return 'akima-near-weight-kink'
                ref_s = R.spline('akima', grid, row, x)
                if not np.allclose(_akima(grid, row, x), ref_s, rtol=1e-11, atol=1e-12):
                    raise RuntimeError('harness: own Akima reference disagrees with SciPy')
        return None

    def one(meth, yrow):
        if meth == 'akima':
            return _akima(grid, yrow, x)
        return R.spline(meth, grid, yrow, x, order=order)

    ins = [_inp(s['cp'], (vs, len(s['y'][0])), s['y'], s['units'], s['src_units']) for s in o['splines']]
    outs = [{'name': s['out'], 'shape': [vs, len(x)], 'units': s['units']} for s in o['splines']]

    def add_spline(c, s):
        if s['give_val']:
            c.add_spline(y_cp_name=s['cp'], y_interp_name=s['out'], y_cp_val=np.ones((vs, len(s['y'][0]))),
                         y_units=s['units'])
        else:
            c.add_spline(y_cp_name=s['cp'], y_interp_name=s['out'], y_units=s['units'])

    def add_item(c, item):
        if item.get('x_interp') is not None:
            c.options['x_interp_val'] = np.array(item['x_interp'], dtype=float)
        if item.get('spline') is not None:
            add_spline(c, item['spline'])

    def make():
        kw = dict(method=method, x_interp_val=x.copy(), vec_size=vs)
        if method == 'bsplines':
            kw['num_cp'] = o['num_cp']
            if not o.get('default_order'):
                kw['interp_options'] = {'order': order}
        elif 'x_cp' in o:
            kw['x_cp_val'] = grid.copy()
        else:
            kw['num_cp'] = o['num_cp']
        c = om.SplineComp(**kw)
        for s in o['splines']:
            add_spline(c, s)
        return c

    def ref(xs):
        return [np.array([one(method, row) for row in y]) for y in xs]

    def extend(rng):
        c2 = copy.deepcopy(case)
        item = {'x_interp': None, 'spline': None}
        cnt = []
        what = int(rng.integers(3))          # new spline, new interpolation points, both
        if what != 1:
            u, su = units_pair(rng, 0.3)
            n_cp = len(o['splines'][0]['y'][0])
            k = len(o['splines'])
            item['spline'] = {'cp': 'xycp%d' % k, 'out': 'xy%d' % k, 'units': u, 'src_units': su,
                              'y': rnd(rng, (vs, n_cp)).tolist(), 'give_val': bool(rng.random() < 0.5)}
            c2['opts']['splines'].append(item['spline'])
        if what != 0:
            item['x_interp'] = _new_x_interp(rng, method, grid).tolist()
            c2['opts']['x_interp'] = item['x_interp']
            cnt.append('hist:spline-new-x_interp')
        return (c2, item) + tuple(cnt)

    return {'ins': ins, 'outs': outs, 'make': make, 'ref': ref, 'guard': guard, 'add_item': add_item,
            'extend': extend}


def judge_spline(case, acc, seed):
    o = case['opts']
    method, vs = o['method'], o['vec_size']
    ctx = Ctx(case, acc, 'SplineComp', method +
              ('+n_interp==vec_size' if (method == 'bsplines' and len(o['x_interp']) == vs) else '') +
              ('+4cp' if (method == 'akima' and len(o['splines'][0]['y'][0]) == 4) else '') +
              ('+num_cp' if 'num_cp' in o and method != 'bsplines' else ''))
    if not run_flow(ctx, spec_spline, seed):
        return
    acc.count('spline:' + method)
    if len(o['splines']) > 1:
        acc.count('cell:multi')
    finish(ctx)


# ----------------------------------------------------------------------------------------------
# framework entry points
# ----------------------------------------------------------------------------------------------
GEN = {
    'AddSubtractComp': gen_addsub,
    'MuxComp': gen_mux,
    'DotProductComp': lambda rng: gen_products(rng, 'DotProductComp'),
    'CrossProductComp': lambda rng: gen_products(rng, 'CrossProductComp'),
    'MatrixVectorProductComp': lambda rng: gen_products(rng, 'MatrixVectorProductComp'),
    'VectorMagnitudeComp': lambda rng: gen_products(rng, 'VectorMagnitudeComp'),
    'EQConstraintComp': lambda rng: gen_eq(rng, 'EQConstraintComp'),
    'BalanceComp': lambda rng: gen_eq(rng, 'BalanceComp'),
    'LinearSystemComp': gen_linsys,
    'SplineComp': gen_spline,
}
JUDGE = {
    'AddSubtractComp': judge_addsub, 'MuxComp': judge_mux, 'DotProductComp': judge_products,
    'CrossProductComp': judge_products, 'MatrixVectorProductComp': judge_products,
    'VectorMagnitudeComp': judge_products, 'EQConstraintComp': judge_eqconstraint, 'BalanceComp': judge_balance,
    'LinearSystemComp': judge_linsys, 'SplineComp': judge_spline,
}


def shards(tier, seed):
    n, per = (16, 4) if tier == 'quick' else (40, 22)
    return [{'seed': seed * 4391 + k, 'k': k, 'per': per} for k in range(n)]


def run_shard(shard, acc):
    rng = np.random.default_rng(shard['seed'])
    hrng = np.random.default_rng([shard['seed'], 26])      # history plans: a stream of their own
    for rep in range(shard['per']):
        for comp in COMPS:
            case = GEN[comp](rng)
            case['seed'] = int(shard['seed'] * 1000 + rep)
            case['hist'] = gen_hist(hrng)
            JUDGE[comp](case, acc, case['seed'])
        # every spline method in turn so that each shard reaches all of them over its repetitions
        m = SPLINE_METHODS[(shard['k'] + rep) % len(SPLINE_METHODS)]
        case = gen_spline(rng, m)
        case['seed'] = int(shard['seed'] * 1000 + rep)
        case['hist'] = gen_hist(hrng)
        judge_spline(case, acc, case['seed'])


def run_case(case, acc):
    JUDGE[case['comp']](case, acc, case.get('seed', 0))


def coverage_extra(tier, agg):
    return {'exhaustive': False}
