"""C26 - Stock math components compute their formulas and exact partials.

Monitor: for each of the ten components a random option set and input point is generated, a
one-component problem (IndepVarComp -> component, sources possibly in other units) is run and the
outputs / residuals, the component's own linearized sub-jacobians and the total derivatives (fwd or
rev) are compared with the documented formula evaluated by the harness (omv/ref/stock.py) and with the
complex-step derivative of that harness evaluation.
"""
import numpy as np

from omv.core import fingerprint
from omv.gen.compkit import (conv, dense_subjac, worst, perturbed_spread, tol_of, UNIT_CONV, EPS)
from omv.ref import stock as R

PROPERTY = 'C26'
LEVEL = 'exploration'
TECHNIQUE = 'runtime monitoring: stock component outputs/residuals, sub-jacobians and totals vs documented formula + complex step'
RULE = ('per component random option sets: vec_size 1-4, length/size 1-4, shapes, scaling factors, units and '
        '*_units with sources in other units, 1-3 equations/products/magnitudes/splines per component with '
        'shared inputs, MuxComp axes and shape given by tuple, int or an array val, EQConstraintComp/BalanceComp '
        'use_mult x normalize x rhs_val x default (unconnected) inputs, BalanceComp units through eq_units or '
        'lhs_kwargs/rhs_kwargs (constructor and add_balance), solved with Newton against an affine ExecComp, LinearSystemComp '
        'vectorize_A x vec_size, SplineComp methods x x_cp_val/num_cp x vec_size; distinct = distinct '
        '(component, options); non-trivial = outputs and derivatives were compared')
ASSUMPTIONS = [
    'the documented formula evaluated with NumPy is the reference; derivatives by complex step on it',
    'tolerance = 20 x spread of the reference under 1e-13 relative input perturbations (3 draws) + 64 ulp of '
    'the largest entry (conditioning-derived; covers ill-conditioned A in LinearSystemComp)',
    'VectorMagnitudeComp inputs keep |a| >= 0.2; |rhs| stays 0.05 away from the C1 switch at 2',
    'SplineComp lagrange2/lagrange3: stencil = bracketing interval extended to the right / both sides and '
    'shifted inwards at the ends; x_interp strictly inside the control range; akima slopes keep '
    '|m[i+1]-m[i]| >= 0.05 (kinks of the Akima weights)',
    'duplicate input names within one AddSubtractComp equation and a_name == b_name products are not '
    'generated (the component warns about / does not define them)',
]
MIN_JUDGED = {'quick': 250, 'thorough': 6000}
COMPS = ['AddSubtractComp', 'MuxComp', 'DotProductComp', 'CrossProductComp', 'MatrixVectorProductComp',
         'VectorMagnitudeComp', 'EQConstraintComp', 'BalanceComp', 'LinearSystemComp', 'SplineComp']
REQUIRED_COUNTERS = ['comp:' + c for c in COMPS] + \
    ['obs:output', 'obs:partials', 'obs:totals-fwd', 'obs:totals-rev', 'obs:residual', 'obs:balance-solved',
     'cell:units', 'cell:multi', 'cell:shared-input', 'cell:default-input', 'cell:balance-ctor-kwargs',
     'cell:mux-int-shape', 'cell:mux-array-val'] + \
    ['spline:' + m for m in ('slinear', 'lagrange2', 'lagrange3', 'cubic', 'akima', 'bsplines',
                             'scipy_slinear', 'scipy_cubic', 'scipy_quintic')]
SHARD_TIMEOUT = {'quick': 900, 'thorough': 3600}

UNITS = ['m', 'cm', 's', 'N', 'kg']


def pick(rng, seq):
    return seq[int(rng.integers(len(seq)))]


def rnd(rng, shape, lo=-2.0, hi=2.0):
    return np.round(rng.uniform(lo, hi, size=shape), 6)


def units_pair(rng, p_units=0.4, p_other=0.6):
    """(component units, source units)."""
    if rng.random() >= p_units:
        return None, None
    u = str(pick(rng, UNITS))
    cands = [a for (a, b) in UNIT_CONV if b == u and UNIT_CONV[(a, b)][1] == 0.0]
    if cands and rng.random() < p_other:
        return u, str(pick(rng, cands))
    return u, u


# ----------------------------------------------------------------------------------------------
# generic explicit-component flow
# ----------------------------------------------------------------------------------------------
class Ctx(object):
    def __init__(self, case, acc, comp, optclass):
        self.case, self.acc = case, acc
        self.comp = comp
        self.optclass = optclass
        self.bad = False
        self.fp = fingerprint({'comp': comp, 'opts': case['opts'], 'mode': case.get('mode')})

    def viol(self, obs, what):
        self.acc.viol('%s:%s:%s' % (self.comp, self.optclass, obs), what, self.case, fp=self.fp,
                      new_case=not self.bad)
        self.bad = True


def _cmp(ctx, obs, label, got, ref, tol):
    got = np.asarray(got, dtype=float)
    ref = np.asarray(ref, dtype=float)
    if got.size != ref.size:
        ctx.viol(obs + '-shape', '%s has size %d, expected %d' % (label, got.size, ref.size))
        return
    got = got.reshape(ref.shape)
    if not np.all(np.isfinite(got)) or np.any(np.abs(got - ref) > tol):
        ctx.viol(obs, '%s: %s (tol %.3g)' % (label, worst(got, ref), float(np.max(tol))))


def run_explicit(ctx, make_comp, ins, outs, ref_fun, seed):
    """ins: list of dict(name, shape, units, src_units, connected, val); outs: list of dict(name, shape).
    ref_fun(list of arrays ordered like ins) -> list of arrays ordered like outs."""
    import openmdao.api as om
    acc, case = ctx.acc, ctx.case
    mode = case['mode']
    xs = [np.array(i['val'], dtype=float).reshape(i['shape']) for i in ins]
    o0, J0, Do, DJ = perturbed_spread(lambda a: ref_fun(a), xs, seed)
    try:
        prob = om.Problem()
        ivc = prob.model.add_subsystem('ivc', om.IndepVarComp())
        comp = make_comp()
        prob.model.add_subsystem('c', comp)
        for k, i in enumerate(ins):
            if i['connected']:
                ivc.add_output('v%d' % k, val=np.ones(i['shape']), units=i['src_units'])
                prob.model.connect('ivc.v%d' % k, 'c.' + i['name'])
        if not any(i['connected'] for i in ins):
            ivc.add_output('unused', 1.0)
        prob.setup(mode=mode)
        for k, i in enumerate(ins):
            if i['connected']:
                fac, off = conv(i['src_units'], i['units'])
                prob.set_val('ivc.v%d' % k, xs[k] / fac - off)
        prob.run_model()
    except Exception as e:
        ctx.viol('raises:' + type(e).__name__, '%s: %s' % (type(e).__name__, str(e)[:300]))
        return
    try:
        for k, i in enumerate(ins):
            got = np.asarray(prob.get_val('c.' + i['name']), dtype=float)
            if got.size != xs[k].size or not np.allclose(got.reshape(xs[k].shape), xs[k], rtol=1e-12, atol=1e-13):
                if i['connected']:
                    raise RuntimeError('harness: input %s not delivered' % i['name'])
                ctx.viol('default-input-value', 'unconnected input %s has value %s, documented default %s'
                         % (i['name'], got.ravel()[:4], xs[k].ravel()[:4]))
                return
        for k, o in enumerate(outs):
            got = np.asarray(prob.get_val('c.' + o['name']))
            acc.count('obs:output')
            if tuple(got.shape) != tuple(o['shape']):
                ctx.viol('output-shape', 'output %s has shape %s, documented %s' % (o['name'], got.shape, o['shape']))
                continue
            _cmp(ctx, 'output', 'output ' + o['name'], got, o0[k], tol_of(o0[k], Do[k]))
        conn = [k for k, i in enumerate(ins) if i['connected']]
        try:
            tot = prob.compute_totals(of=['c.' + o['name'] for o in outs], wrt=['ivc.v%d' % k for k in conn],
                                      return_format='flat_dict') if conn else {}
        except Exception as e:
            ctx.viol('compute_totals-raises:' + type(e).__name__, str(e)[:300])
            return
        for oi, o in enumerate(outs):
            for k, i in enumerate(ins):
                ref = J0[oi][k]
                tol = tol_of(ref, DJ[oi][k]) + 16 * EPS * np.abs(ref)
                sj = dense_subjac(comp, o['name'], i['name'])
                acc.count('obs:partials')
                if sj is None:
                    if np.any(ref != 0):
                        ctx.viol('partials-undeclared-nonzero', 'd%s/d%s not declared but nonzero'
                                 % (o['name'], i['name']))
                else:
                    _cmp(ctx, 'partials', 'partial d%s/d%s' % (o['name'], i['name']), sj, ref, tol)
                if i['connected']:
                    fac, _ = conv(i['src_units'], i['units'])
                    acc.count('obs:totals-' + mode)
                    _cmp(ctx, 'totals-' + mode, 'total d%s/d%s' % (o['name'], i['name']),
                         tot['c.' + o['name'], 'ivc.v%d' % k], ref * fac,
                         tol * abs(fac) + 64 * EPS * np.abs(ref * fac))
        if any(i['connected'] and i['units'] != i['src_units'] for i in ins):
            acc.count('cell:units')
        if any(not i['connected'] for i in ins):
            acc.count('cell:default-input')
    finally:
        try:
            prob.cleanup()
        except Exception:
            pass


def finish(ctx, nontrivial=True):
    ctx.acc.count('comp:' + ctx.comp)
    if not ctx.bad:
        ctx.acc.ok(ctx.fp, nontrivial=nontrivial,
                   sample=({'comp': ctx.comp, 'opts': ctx.case['opts']} if ctx.acc.judged % 41 == 0 else None))


def _inp(name, shape, val, units=None, src_units=None, connected=True):
    return {'name': name, 'shape': list(shape), 'val': np.asarray(val).tolist(), 'units': units,
            'src_units': src_units, 'connected': connected}


# ----------------------------------------------------------------------------------------------
# AddSubtractComp
# ----------------------------------------------------------------------------------------------
def gen_addsub(rng):
    neq = int(pick(rng, [1, 1, 2, 3]))
    eqs = []
    pool = {}   # name -> (vec_size, length, units, src_units)
    for e in range(neq):
        vs, ln = int(rng.integers(1, 5)), int(pick(rng, [1, 1, 2, 3]))
        u, su = units_pair(rng)
        nin = int(rng.integers(2, 5))
        names = []
        for j in range(nin):
            same = [n for n, t in pool.items() if t[:3] == (vs, ln, u) and n not in names]
            if same and rng.random() < 0.35:
                names.append(str(pick(rng, same)))
            else:
                n = 'in%d' % len(pool)
                usrc = u if u is None else units_pair_src(rng, u)
                pool[n] = (vs, ln, u, usrc)
                names.append(n)
        sf = None if rng.random() < 0.3 else [float(pick(rng, [1.0, -1.0, 2.5, -0.5, 0.0, 3.0])) for _ in names]
        eqs.append({'out': 'res%d' % e, 'ins': names, 'vec_size': vs, 'length': ln, 'units': u, 'sf': sf})
    ctor = neq == 1 and rng.random() < 0.4
    opts = {'eqs': eqs, 'ctor': bool(ctor), 'complex': bool(rng.random() < 0.15)}
    vals = {n: rnd(rng, (t[0],) if t[1] == 1 else (t[0], t[1])).tolist() for n, t in pool.items()}
    return {'comp': 'AddSubtractComp', 'opts': opts, 'pool': {n: list(t) for n, t in pool.items()}, 'vals': vals,
            'mode': str(pick(rng, ['fwd', 'rev']))}


def units_pair_src(rng, u):
    cands = [a for (a, b) in UNIT_CONV if b == u and UNIT_CONV[(a, b)][1] == 0.0]
    return str(pick(rng, cands)) if cands and rng.random() < 0.6 else u


def judge_addsub(case, acc, seed):
    import openmdao.api as om
    o = case['opts']
    eqs = o['eqs']
    shared = len(set(n for e in eqs for n in e['ins'])) < sum(len(e['ins']) for e in eqs)
    oc = ('multi' if len(eqs) > 1 else 'single') + ('+shared' if shared else '') + \
         ('+units' if any(e['units'] for e in eqs) else '') + ('+ctor' if o['ctor'] else '')
    ctx = Ctx(case, acc, 'AddSubtractComp', oc)
    names = list(case['pool'])
    ins = []
    for n in names:
        vs, ln, u, su = case['pool'][n]
        ins.append(_inp(n, (vs,) if ln == 1 else (vs, ln), case['vals'][n], u, su))
    outs = [{'name': e['out'], 'shape': [e['vec_size']] if e['length'] == 1 else [e['vec_size'], e['length']]}
            for e in eqs]

    def make():
        kw = {'complex': True} if o['complex'] else {}
        if o['ctor']:
            e = eqs[0]
            c = om.AddSubtractComp(output_name=e['out'], input_names=list(e['ins']), vec_size=e['vec_size'],
                                   length=e['length'], scaling_factors=e['sf'], units=e['units'])
            if o['complex']:
                c.options['complex'] = True
            return c
        c = om.AddSubtractComp(**kw)
        for e in eqs:
            c.add_equation(e['out'], list(e['ins']), vec_size=e['vec_size'], length=e['length'],
                           scaling_factors=e['sf'], units=e['units'])
        return c

    def ref(xs):
        d = dict(zip(names, xs))
        return [R.add_subtract([d[n] for n in e['ins']], e['sf']) for e in eqs]

    run_explicit(ctx, make, ins, outs, ref, seed)
    if len(eqs) > 1:
        acc.count('cell:multi')
    if shared:
        acc.count('cell:shared-input')
    finish(ctx)


# ----------------------------------------------------------------------------------------------
# MuxComp
# ----------------------------------------------------------------------------------------------
def gen_mux(rng):
    vs = int(rng.integers(1, 5))
    nv = int(pick(rng, [1, 1, 2]))
    vars_ = []
    for k in range(nv):
        shp = pick(rng, [(1,), (2,), (3,), (2, 2), (2, 3), (3, 1), (2, 1, 2)])
        axis = int(rng.integers(0, len(shp) + 1))
        u, su = units_pair(rng)
        vars_.append({'name': 'v%d' % k, 'shape': list(shp), 'axis': axis, 'units': u, 'src_units': su,
                      'by_val': bool(rng.random() < 0.3)})
    vals = {'%s_%d' % (v['name'], i): rnd(rng, v['shape']).tolist() for v in vars_ for i in range(vs)}
    for v in vars_:
        # 1-D inputs: `shape` given as a plain int ("shape : int or tuple or list or None"); derived from an
        # existing draw so that the random stream of the other cases is unchanged
        v['shape_int'] = bool(len(v['shape']) == 1 and not v['by_val'] and
                              int(round(abs(float(np.ravel(vals[v['name'] + '_0'])[0])) * 1e6)) % 2 == 0)
    return {'comp': 'MuxComp', 'opts': {'vec_size': vs, 'vars': vars_}, 'vals': vals,
            'mode': str(pick(rng, ['fwd', 'rev']))}


def judge_mux(case, acc, seed):
    import openmdao.api as om
    o = case['opts']
    vs = o['vec_size']
    oc = 'ndim%d' % max(len(v['shape']) for v in o['vars']) + ('+multi' if len(o['vars']) > 1 else '')
    if any(v.get('shape_int') for v in o['vars']):
        oc = 'int-shape'      # input shape given as a plain int
        acc.count('cell:mux-int-shape')
    if any(v['by_val'] for v in o['vars']):
        oc = 'array-val'      # input shape given through an array `val` instead of `shape`
        acc.count('cell:mux-array-val')
    ctx = Ctx(case, acc, 'MuxComp', oc)
    ins, outs = [], []
    for v in o['vars']:
        for i in range(vs):
            n = '%s_%d' % (v['name'], i)
            ins.append(_inp(n, v['shape'], case['vals'][n], v['units'], v['src_units']))
        shp = list(v['shape'])
        shp.insert(v['axis'], vs)
        outs.append({'name': v['name'], 'shape': shp})

    def make():
        c = om.MuxComp(vec_size=vs)
        for v in o['vars']:
            if v['by_val']:
                c.add_var(v['name'], val=np.ones(tuple(v['shape'])), axis=v['axis'], units=v['units'])
            elif v.get('shape_int'):
                c.add_var(v['name'], shape=int(v['shape'][0]), axis=v['axis'], units=v['units'])
            else:
                c.add_var(v['name'], shape=tuple(v['shape']), axis=v['axis'], units=v['units'])
        return c

    def ref(xs):
        out, k = [], 0
        for v in o['vars']:
            out.append(R.mux(xs[k:k + vs], v['axis']))
            k += vs
        return out

    run_explicit(ctx, make, ins, outs, ref, seed)
    if len(o['vars']) > 1:
        acc.count('cell:multi')
    finish(ctx)


# ----------------------------------------------------------------------------------------------
# products: DotProductComp, CrossProductComp, MatrixVectorProductComp, VectorMagnitudeComp
# ----------------------------------------------------------------------------------------------
def gen_products(rng, comp):
    vs = int(rng.integers(1, 5))
    if comp == 'DotProductComp':
        dims = {'length': int(rng.integers(1, 5))}
    elif comp == 'MatrixVectorProductComp':
        dims = {'A_shape': [int(rng.integers(1, 5)), int(rng.integers(1, 5))]}
    elif comp == 'VectorMagnitudeComp':
        dims = {'length': int(rng.integers(1, 5))}
    else:
        dims = {}
    nprod = int(pick(rng, [1, 1, 2, 3]))
    pool = {}     # input name -> (role, units, src_units)
    prods = []
    two = comp != 'VectorMagnitudeComp'
    roles = ('A', 'x') if comp == 'MatrixVectorProductComp' else (('a', 'b') if two else ('a',))
    custom = rng.random() < 0.5
    for k in range(nprod):
        names = []
        for role in roles:
            same = [n for n, t in pool.items() if t[0] == role and n not in names]
            if same and rng.random() < 0.4:
                names.append(str(pick(rng, same)))
            else:
                if k == 0 and not custom:
                    n = {'a': 'a', 'b': 'b', 'A': 'A', 'x': 'x'}[role] if two else 'a'
                else:
                    n = '%s%d' % (role.lower() + 'in', len(pool))
                u, su = units_pair(rng)
                pool[n] = (role, u, su)
                names.append(n)
        if comp == 'VectorMagnitudeComp':
            out = 'a_mag' if (k == 0 and not custom) else 'mag%d' % k
            ou = pool[names[0]][1]
        else:
            dflt = 'b' if comp == 'MatrixVectorProductComp' else 'c'
            out = dflt if (k == 0 and not custom) else 'out%d' % k
            ou = str(pick(rng, UNITS)) if rng.random() < 0.3 else None
        prods.append({'out': out, 'ins': names, 'out_units': ou})
    opts = {'vec_size': vs, 'prods': prods, 'custom_first': bool(custom)}
    opts.update(dims)
    vals = {}
    for n, t in pool.items():
        if comp == 'DotProductComp' or comp == 'VectorMagnitudeComp':
            shp = (vs, dims['length'])
        elif comp == 'CrossProductComp':
            shp = (vs, 3) if vs > 1 else (3,)
        else:
            shp = (vs, dims['A_shape'][0], dims['A_shape'][1]) if t[0] == 'A' else (vs, dims['A_shape'][1])
        v = rnd(rng, shp)
        if comp == 'VectorMagnitudeComp':
            # keep away from the origin (non-differentiable point of the norm)
            nrm = np.sqrt(np.sum(v * v, axis=-1, keepdims=True))
            v = np.where(nrm < 0.2, v + 0.5, v)
        vals[n] = v.tolist()
    return {'comp': comp, 'opts': opts, 'pool': {n: list(t) for n, t in pool.items()}, 'vals': vals,
            'mode': str(pick(rng, ['fwd', 'rev']))}


def judge_products(case, acc, seed):
    import openmdao.api as om
    comp = case['comp']
    o = case['opts']
    vs = o['vec_size']
    prods = o['prods']
    names = list(case['pool'])
    shared = len(set(n for p in prods for n in p['ins'])) < sum(len(p['ins']) for p in prods)
    anyu = any(t[1] for t in case['pool'].values())
    oc = ('vec1' if vs == 1 else 'vecN') + ('+multi' if len(prods) > 1 else '') + \
         ('+shared' if shared else '') + ('+units' if anyu else '')
    ctx = Ctx(case, acc, comp, oc)
    ins = []
    for n in names:
        role, u, su = case['pool'][n]
        ins.append(_inp(n, np.shape(case['vals'][n]), case['vals'][n], u, su))
    if comp == 'VectorMagnitudeComp':
        for n in names:
            a = np.array(case['vals'][n])
            if np.min(np.sqrt(np.sum(a * a, axis=-1))) < 0.15:
                acc.skip('vector-magnitude-near-origin')
                return
    outs = []
    for p in prods:
        if comp in ('DotProductComp', 'VectorMagnitudeComp'):
            shp = [vs]
        elif comp == 'CrossProductComp':
            shp = [vs, 3] if vs > 1 else [3]
        else:
            shp = [vs, o['A_shape'][0]] if vs > 1 else [o['A_shape'][0]]
        outs.append({'name': p['out'], 'shape': shp})

    def make():
        p0 = prods[0]
        pool = case['pool']
        if comp == 'DotProductComp':
            kw = dict(vec_size=vs, length=o['length'])
            if o['custom_first']:
                kw.update(a_name=p0['ins'][0], b_name=p0['ins'][1], c_name=p0['out'])
            kw.update(a_units=pool[p0['ins'][0]][1], b_units=pool[p0['ins'][1]][1], c_units=p0['out_units'])
            c = om.DotProductComp(**kw)
            for p in prods[1:]:
                c.add_product(p['out'], a_name=p['ins'][0], b_name=p['ins'][1], c_units=p['out_units'],
                              a_units=pool[p['ins'][0]][1], b_units=pool[p['ins'][1]][1], vec_size=vs,
                              length=o['length'])
        elif comp == 'CrossProductComp':
            kw = dict(vec_size=vs)
            if o['custom_first']:
                kw.update(a_name=p0['ins'][0], b_name=p0['ins'][1], c_name=p0['out'])
            kw.update(a_units=pool[p0['ins'][0]][1], b_units=pool[p0['ins'][1]][1], c_units=p0['out_units'])
            c = om.CrossProductComp(**kw)
            for p in prods[1:]:
                c.add_product(p['out'], a_name=p['ins'][0], b_name=p['ins'][1], c_units=p['out_units'],
                              a_units=pool[p['ins'][0]][1], b_units=pool[p['ins'][1]][1], vec_size=vs)
        elif comp == 'MatrixVectorProductComp':
            kw = dict(vec_size=vs, A_shape=tuple(o['A_shape']))
            if o['custom_first']:
                kw.update(A_name=p0['ins'][0], x_name=p0['ins'][1], b_name=p0['out'])
            kw.update(A_units=pool[p0['ins'][0]][1], x_units=pool[p0['ins'][1]][1], b_units=p0['out_units'])
            c = om.MatrixVectorProductComp(**kw)
            for p in prods[1:]:
                c.add_product(p['out'], A_name=p['ins'][0], x_name=p['ins'][1], b_units=p['out_units'],
                              A_units=pool[p['ins'][0]][1], x_units=pool[p['ins'][1]][1], vec_size=vs,
                              A_shape=tuple(o['A_shape']))
        else:
            kw = dict(vec_size=vs, length=o['length'], units=pool[p0['ins'][0]][1])
            if o['custom_first']:
                kw.update(in_name=p0['ins'][0], mag_name=p0['out'])
            c = om.VectorMagnitudeComp(**kw)
            for p in prods[1:]:
                c.add_magnitude(p['out'], p['ins'][0], units=pool[p['ins'][0]][1], vec_size=vs,
                                length=o['length'])
        return c

    def ref(xs):
        d = dict(zip(names, xs))
        out = []
        for p, od in zip(prods, outs):
            if comp == 'DotProductComp':
                r = R.dot_product(d[p['ins'][0]], d[p['ins'][1]])
            elif comp == 'CrossProductComp':
                r = R.cross_product(d[p['ins'][0]], d[p['ins'][1]])
            elif comp == 'MatrixVectorProductComp':
                r = R.matrix_vector_product(d[p['ins'][0]], d[p['ins'][1]])
            else:
                r = R.vector_magnitude(d[p['ins'][0]])
            out.append(np.reshape(r, od['shape']))
        return out

    run_explicit(ctx, make, ins, outs, ref, seed)
    if len(prods) > 1:
        acc.count('cell:multi')
    if shared:
        acc.count('cell:shared-input')
    finish(ctx)


# ----------------------------------------------------------------------------------------------
# EQConstraintComp
# ----------------------------------------------------------------------------------------------
def _rhs_vals(rng, shape):
    """rhs values in both normalization regimes, 0.05 away from |rhs| = 2."""
    v = np.where(rng.random(size=shape) < 0.5, rng.uniform(-1.9, 1.9, size=shape),
                 rng.uniform(2.1, 6.0, size=shape) * np.where(rng.random(size=shape) < 0.5, -1, 1))
    return np.round(v, 6)


def gen_eq(rng, comp):
    n = int(pick(rng, [1, 1, 2]))
    outs = []
    for k in range(n):
        shp = pick(rng, [(1,), (1,), (3,), (4,), (2, 2)])
        u, su = units_pair(rng)
        use_mult = bool(rng.random() < 0.5)
        o = {'name': 'q%d' % k, 'shape': list(shp), 'eq_units': u, 'src_units': su, 'use_mult': use_mult,
             'normalize': bool(rng.random() < 0.6), 'custom_names': bool(rng.random() < 0.3),
             'rhs_val': float(np.round(rng.uniform(-4, 4), 3)) if rng.random() < 0.6 else 0.0,
             'mult_val': float(np.round(rng.uniform(0.5, 3), 3)) if rng.random() < 0.5 else 1.0,
             'connect_rhs': bool(rng.random() < 0.6), 'connect_mult': bool(rng.random() < 0.6),
             'shape_by': str(pick(rng, ['shape', 'val'])), 'add_constraint': bool(rng.random() < 0.2)}
        if abs(abs(o['rhs_val']) - 2.0) < 0.05:
            o['rhs_val'] = 1.0
        if comp == 'BalanceComp':
            o['rhs_array'] = bool(rng.random() < 0.3 and len(shp) == 1)
        o['lhs'] = rnd(rng, shp, -5, 5).tolist()
        o['rhs'] = _rhs_vals(rng, shp).tolist()
        o['mult'] = rnd(rng, shp, 0.3, 3).tolist()
        o['state'] = rnd(rng, shp, -3, 3).tolist()
        # BalanceComp: hand the equation units over through lhs_kwargs/rhs_kwargs instead of eq_units
        # (derived from an existing draw so that the random stream of the other cases is unchanged)
        o['units_by_kwargs'] = bool(comp == 'BalanceComp' and
                                    int(round(abs(float(np.ravel(o['state'])[0])) * 1e6)) % 2 == 0)
        outs.append(o)
    return {'comp': comp, 'opts': {'outs': outs, 'ctor': bool(n == 1 and rng.random() < 0.4)},
            'mode': str(pick(rng, ['fwd', 'rev'])), 'solve': {'a': float(np.round(rng.uniform(0.5, 3), 3)),
                                                              'b': float(np.round(rng.uniform(-2, 2), 3))}}


def _eq_names(o):
    if o['custom_names']:
        return 'L_' + o['name'], 'R_' + o['name'], 'M_' + o['name']
    return 'lhs:' + o['name'], 'rhs:' + o['name'], 'mult:' + o['name']


def _eq_optclass(outs):
    """Mechanism-relevant option class: normalization on/off, N-D variables, multiplier."""
    f = []
    if any(o['normalize'] for o in outs):
        f.append('normalize')
    if any(len(o['shape']) > 1 for o in outs):
        f.append('nd')
    if any(o['use_mult'] for o in outs):
        f.append('mult')
    return '+'.join(f) or 'plain'


def judge_eqconstraint(case, acc, seed):
    import openmdao.api as om
    outs_o = case['opts']['outs']
    ctx = Ctx(case, acc, 'EQConstraintComp', _eq_optclass(outs_o))
    ins, outs, layout = [], [], []
    for o in outs_o:
        ln, rn, mn = _eq_names(o)
        shp = o['shape']
        ins.append(_inp(ln, shp, o['lhs'], o['eq_units'], o['src_units']))
        if o['connect_rhs']:
            ins.append(_inp(rn, shp, o['rhs'], o['eq_units'], o['src_units']))
        else:
            ins.append(_inp(rn, shp, o['rhs_val'] * np.ones(shp), o['eq_units'], None, connected=False))
        if o['use_mult']:
            if o['connect_mult']:
                ins.append(_inp(mn, shp, o['mult'], None, None))
            else:
                ins.append(_inp(mn, shp, o['mult_val'] * np.ones(shp), None, None, connected=False))
        layout.append(3 if o['use_mult'] else 2)
        outs.append({'name': o['name'], 'shape': shp})

    def make():
        def kwargs(o):
            ln, rn, mn = _eq_names(o)
            kw = dict(eq_units=o['eq_units'], rhs_val=o['rhs_val'], use_mult=o['use_mult'], mult_val=o['mult_val'],
                      normalize=o['normalize'], add_constraint=o['add_constraint'])
            if o['custom_names']:
                kw.update(lhs_name=ln, rhs_name=rn, mult_name=mn)
            if o['shape_by'] == 'shape':
                kw['shape'] = tuple(o['shape'])
            else:
                kw['val'] = np.ones(tuple(o['shape']))
            return kw
        if case['opts']['ctor']:
            return om.EQConstraintComp(outs_o[0]['name'], **kwargs(outs_o[0]))
        c = om.EQConstraintComp()
        for o in outs_o:
            c.add_eq_output(o['name'], **kwargs(o))
        return c

    def ref(xs):
        res, k = [], 0
        for o, n in zip(outs_o, layout):
            lhs, rhs = xs[k], xs[k + 1]
            mult = xs[k + 2] if n == 3 else None
            res.append(R.eq_constraint(lhs, rhs, mult, o['normalize']))
            k += n
        return res

    run_explicit(ctx, make, ins, outs, ref, seed)
    if len(outs_o) > 1:
        acc.count('cell:multi')
    finish(ctx)


# ----------------------------------------------------------------------------------------------
# BalanceComp: residual + partials of the stand-alone component, then a Newton solve against y = a*x + b
# ----------------------------------------------------------------------------------------------
def judge_balance(case, acc, seed):
    import openmdao.api as om
    outs_o = case['opts']['outs']
    ctor_kwargs = bool(case['opts']['ctor'] and outs_o[0].get('units_by_kwargs'))
    ctx = Ctx(case, acc, 'BalanceComp', 'ctor-kwargs' if ctor_kwargs else _eq_optclass(outs_o))
    if ctor_kwargs:
        acc.count('cell:balance-ctor-kwargs')
    guess_calls = []

    def guess(inputs, outputs, residuals):
        guess_calls.append(1)

    def make(with_guess=False):
        def kwargs(o):
            ln, rn, mn = _eq_names(o)
            rhs_val = o['rhs_val'] * np.ones(tuple(o['shape'])) if o.get('rhs_array') else o['rhs_val']
            kw = dict(eq_units=o['eq_units'], rhs_val=rhs_val, use_mult=o['use_mult'], mult_val=o['mult_val'],
                      normalize=o['normalize'])
            if o['custom_names']:
                kw.update(lhs_name=ln, rhs_name=rn, mult_name=mn)
            if o.get('units_by_kwargs'):
                kw.pop('eq_units')
                kw['lhs_kwargs'] = {'units': o['eq_units']}
                kw['rhs_kwargs'] = {'units': o['eq_units']}
            if o.get('rhs_array'):
                pass                      # shape comes from rhs_val
            elif o['shape_by'] == 'shape':
                kw['shape'] = tuple(o['shape'])
            else:
                kw['val'] = np.ones(tuple(o['shape']))
            return kw
        ckw = {'guess_func': guess} if with_guess else {}
        if case['opts']['ctor']:
            return om.BalanceComp(outs_o[0]['name'], **kwargs(outs_o[0]), **ckw)
        c = om.BalanceComp(**ckw)
        for o in outs_o:
            c.add_balance(o['name'], **kwargs(o))
        return c

    # ---- part 1: residuals and partials
    try:
        prob = om.Problem()
        ivc = prob.model.add_subsystem('ivc', om.IndepVarComp())
        bal = prob.model.add_subsystem('bal', make())
        xs, names, meta = [], [], []
        for o in outs_o:
            ln, rn, mn = _eq_names(o)
            shp = tuple(o['shape'])
            items = [(ln, o['lhs'], o['eq_units'], True), (rn, o['rhs'] if o['connect_rhs'] else
                                                            (o['rhs_val'] * np.ones(shp)).tolist(),
                                                            o['eq_units'], o['connect_rhs'])]
            if o['use_mult']:
                items.append((mn, o['mult'] if o['connect_mult'] else (o['mult_val'] * np.ones(shp)).tolist(), None,
                              o['connect_mult']))
            for (n, v, u, connected) in items:
                k = len(names)
                if connected:
                    su = o['src_units'] if u is not None else None
                    ivc.add_output('v%d' % k, val=np.ones(shp), units=su)
                    prob.model.connect('ivc.v%d' % k, 'bal.' + n)
                else:
                    su = None
                names.append(n)
                xs.append(np.array(v, dtype=float).reshape(shp))
                meta.append((u, su, connected))
        if not any(m[2] for m in meta):
            ivc.add_output('unused', 1.0)
        prob.setup()
        for k, (u, su, connected) in enumerate(meta):
            if connected:
                fac, off = conv(su, u)
                prob.set_val('ivc.v%d' % k, xs[k] / fac - off)
        for o in outs_o:
            prob.set_val('bal.' + o['name'], np.array(o['state']).reshape(tuple(o['shape'])))
        prob.run_model()
        prob.model.run_apply_nonlinear()
        prob.model.run_linearize()
    except Exception as e:
        ctx.viol('raises:' + type(e).__name__, '%s: %s' % (type(e).__name__, str(e)[:300]))
        finish(ctx)
        return

    def ref(a):
        res, k = [], 0
        for o in outs_o:
            n = 3 if o['use_mult'] else 2
            res.append(R.balance_residual(a[k], a[k + 1], a[k + 2] if n == 3 else None, o['normalize']))
            k += n
        return res

    o0, J0, Do, DJ = perturbed_spread(ref, xs, seed)
    for k, n in enumerate(names):
        got = np.asarray(prob.get_val('bal.' + n), dtype=float)
        if got.size != xs[k].size or not np.allclose(got.reshape(xs[k].shape), xs[k], rtol=1e-12, atol=1e-13):
            if meta[k][2]:
                raise RuntimeError('harness: input %s not delivered' % n)
            ctx.viol('default-input-value', 'unconnected input %s has value %s, documented default %s'
                     % (n, got.ravel()[:4], xs[k].ravel()[:4]))
    for oi, o in enumerate(outs_o):
        acc.count('obs:residual')
        res = np.asarray(bal._residuals[o['name']], dtype=float)
        _cmp(ctx, 'residual', 'residual ' + o['name'], res, o0[oi], tol_of(o0[oi], Do[oi]))
        for k, n in enumerate(names):
            ref_j = J0[oi][k]
            sj = dense_subjac(bal, o['name'], n)
            acc.count('obs:partials')
            if sj is None:
                if np.any(ref_j != 0):
                    ctx.viol('partials-undeclared-nonzero', 'dR_%s/d%s not declared but nonzero' % (o['name'], n))
            else:
                _cmp(ctx, 'partials', 'partial dR_%s/d%s' % (o['name'], n), sj, ref_j,
                     tol_of(ref_j, DJ[oi][k]) + 16 * EPS * np.abs(ref_j))
        sj = dense_subjac(bal, o['name'], o['name'])
        if sj is not None and np.any(sj != 0):
            ctx.viol('partials-state-nonzero', 'dR/dstate should be zero (residual does not depend on the state)')
    if any(not m[2] for m in meta):
        acc.count('cell:default-input')
    if any(m[2] and m[0] != m[1] for m in meta):
        acc.count('cell:units')
    prob.cleanup()

    # ---- part 2: the documented use: drive lhs = a*x + b to rhs with Newton; x* = (rhs/mult - b)/a
    o = outs_o[0]
    a, b = case['solve']['a'], case['solve']['b']
    shp = tuple(o['shape'])
    ln, rn, mn = _eq_names(o)
    try:
        p = om.Problem()
        iv = p.model.add_subsystem('ivc', om.IndepVarComp())
        iv.add_output('r', val=np.ones(shp), units=o['eq_units'])
        if o['use_mult']:
            iv.add_output('m', val=np.ones(shp))
        single = dict(outs_o=[o])
        c2 = om.BalanceComp(guess_func=guess)
        kw = dict(eq_units=o['eq_units'], use_mult=o['use_mult'], normalize=o['normalize'], val=np.ones(shp))
        if o['custom_names']:
            kw.update(lhs_name=ln, rhs_name=rn, mult_name=mn)
        c2.add_balance(o['name'], **kw)
        p.model.add_subsystem('f', om.ExecComp('y = %r*x + %r' % (a, b), x=np.ones(shp),
                                               y={'val': np.ones(shp), 'units': o['eq_units']}))
        p.model.add_subsystem('bal', c2)
        p.model.connect('bal.' + o['name'], 'f.x')
        p.model.connect('f.y', 'bal.' + ln)
        p.model.connect('ivc.r', 'bal.' + rn)
        if o['use_mult']:
            p.model.connect('ivc.m', 'bal.' + mn)
        p.model.linear_solver = om.DirectSolver()
        nl = p.model.nonlinear_solver = om.NewtonSolver(solve_subsystems=False, maxiter=30, atol=1e-13, rtol=1e-13,
                                                        iprint=-1)
        p.setup()
        rhs = np.array(o['rhs']).reshape(shp)
        mult = np.array(o['mult']).reshape(shp)
        p.set_val('ivc.r', rhs)
        if o['use_mult']:
            p.set_val('ivc.m', mult)
        p.run_model()
        x = np.asarray(p.get_val('bal.' + o['name']), dtype=float).reshape(shp)
        p.cleanup()
        del single
    except Exception as e:
        ctx.viol('solve-raises:' + type(e).__name__, '%s: %s' % (type(e).__name__, str(e)[:300]))
        finish(ctx)
        return
    m_ = mult if o['use_mult'] else 1.0
    xref = (rhs / m_ - b) / a
    acc.count('obs:balance-solved')
    if not guess_calls:
        ctx.viol('guess_func-not-called', 'guess_func was never invoked during the Newton solve')
    # the Newton residual tolerance 1e-13 on the (normalized) residual bounds the state error by
    # 1e-13 * f_norm / (|mult| a); compare with a 1e-9 absolute/relative band well above it
    if not np.all(np.isfinite(x)) or np.any(np.abs(x - xref) > 1e-9 * (1.0 + np.abs(xref))):
        ctx.viol('solved-state', 'balance state %s, expected %s' % (x.ravel()[:4], np.ravel(xref)[:4]))
    if len(outs_o) > 1:
        acc.count('cell:multi')
    finish(ctx)


# ----------------------------------------------------------------------------------------------
# LinearSystemComp
# ----------------------------------------------------------------------------------------------
def gen_linsys(rng):
    size = int(rng.integers(1, 5))
    vs = int(rng.integers(1, 4))
    vecA = bool(rng.random() < 0.5)
    nA = vs if (vecA and vs > 1) else 1
    A = rnd(rng, (nA, size, size), -1, 1)
    for j in range(nA):
        A[j] += np.diag(np.sign(rng.uniform(-1, 1, size)) * (size + 0.5))   # well conditioned
    A = A if nA > 1 else A[0]
    b = rnd(rng, (vs, size) if vs > 1 else (size,))
    return {'comp': 'LinearSystemComp', 'opts': {'size': size, 'vec_size': vs, 'vectorize_A': vecA},
            'A': A.tolist(), 'b': b.tolist(), 'mode': str(pick(rng, ['fwd', 'rev']))}


def judge_linsys(case, acc, seed):
    import openmdao.api as om
    o = case['opts']
    size, vs, vecA = o['size'], o['vec_size'], o['vectorize_A']
    oc = ('vec1' if vs == 1 else 'vecN') + ('+vectorize_A' if vecA else '')
    ctx = Ctx(case, acc, 'LinearSystemComp', oc)
    mode = case['mode']
    A = np.array(case['A'], dtype=float)
    b = np.array(case['b'], dtype=float)
    try:
        prob = om.Problem()
        ivc = prob.model.add_subsystem('ivc', om.IndepVarComp())
        ivc.add_output('A', val=np.ones(A.shape))
        ivc.add_output('b', val=np.ones(b.shape))
        ls = prob.model.add_subsystem('ls', om.LinearSystemComp(size=size, vec_size=vs, vectorize_A=vecA))
        prob.model.connect('ivc.A', 'ls.A')
        prob.model.connect('ivc.b', 'ls.b')
        prob.setup(mode=mode)
        prob.set_val('ivc.A', A)
        prob.set_val('ivc.b', b)
        prob.run_model()
        x = np.asarray(prob.get_val('ls.x'), dtype=float)
        prob.model.run_apply_nonlinear()
        res = np.asarray(ls._residuals['x'], dtype=float).copy()
        tot = prob.compute_totals(of=['ls.x'], wrt=['ivc.A', 'ivc.b'], return_format='flat_dict')
    except Exception as e:
        ctx.viol('raises:' + type(e).__name__, '%s: %s' % (type(e).__name__, str(e)[:300]))
        finish(ctx)
        return

    def solve(a):
        return [R.linear_system_solve(a[0], a[1], vs, vecA)]

    o0, J0, Do, DJ = perturbed_spread(solve, [A, b], seed)
    acc.count('obs:output')
    if tuple(x.shape) != tuple(b.shape):
        ctx.viol('output-shape', 'x has shape %s, documented %s' % (x.shape, b.shape))
    else:
        _cmp(ctx, 'output', 'solution x', x, o0[0], tol_of(o0[0], Do[0]))
    # residual at the solution is zero up to the conditioning-scaled round-off of the solve
    acc.count('obs:residual')
    rscale = np.max(np.abs(A)) * np.max(np.abs(o0[0])) + np.max(np.abs(b))
    if not np.all(np.abs(res) <= 64 * EPS * size * rscale):
        ctx.viol('residual-at-solution', 'residual %s after solve_nonlinear' % res.ravel()[:4])
    for k, n in enumerate(('A', 'b')):
        acc.count('obs:totals-' + mode)
        ref = J0[0][k]
        _cmp(ctx, 'totals-' + mode, 'total dx/d' + n, tot['ls.x', 'ivc.' + n], ref,
             tol_of(ref, DJ[0][k]) + 64 * EPS * np.abs(ref))
    # partials of R = A x - b at a state that is NOT the solution
    xs = rnd(np.random.default_rng(seed + 17), b.shape)
    try:
        prob.set_val('ls.x', xs)
        prob.model.run_apply_nonlinear()
        res = np.asarray(ls._residuals['x'], dtype=float).copy()
        prob.model.run_linearize()
    except Exception as e:
        ctx.viol('linearize-raises:' + type(e).__name__, str(e)[:300])
        finish(ctx)
        return

    def resid(a):
        return [R.linear_system_residual(a[0], a[1], a[2], vs, vecA)]

    r0, Jr, Dr, DJr = perturbed_spread(resid, [A, b, xs], seed + 1)
    _cmp(ctx, 'residual', 'residual A x - b', res, r0[0], tol_of(r0[0], Dr[0]) + 64 * EPS * rscale)
    for k, n in enumerate(('A', 'b', 'x')):
        acc.count('obs:partials')
        sj = dense_subjac(ls, 'x', n)
        ref = Jr[0][k]
        if sj is None:
            ctx.viol('partials-undeclared-nonzero', 'dR/d%s not declared' % n)
        else:
            _cmp(ctx, 'partials', 'partial dR/d' + n, sj, ref, tol_of(ref, DJr[0][k]) + 16 * EPS * np.abs(ref))
    prob.cleanup()
    finish(ctx)


# ----------------------------------------------------------------------------------------------
# SplineComp
# ----------------------------------------------------------------------------------------------
SPLINE_METHODS = ['slinear', 'lagrange2', 'lagrange3', 'cubic', 'akima', 'bsplines', 'scipy_slinear',
                  'scipy_cubic', 'scipy_quintic']


def _akima(x_cp, y, x):
    """Akima (1970) spline, complex-step safe in y (own implementation; cross-checked against SciPy)."""
    x_cp = np.asarray(x_cp, dtype=float)
    y = np.asarray(y)
    n = len(x_cp)
    m = np.zeros(n + 3, dtype=y.dtype)
    m[2:n + 1] = (y[1:] - y[:-1]) / (x_cp[1:] - x_cp[:-1])
    m[1] = 2 * m[2] - m[3]
    m[0] = 2 * m[1] - m[2]
    m[n + 1] = 2 * m[n] - m[n - 1]
    m[n + 2] = 2 * m[n + 1] - m[n]

    def cabs(v):
        return np.where(v.real < 0, -v, v)
    w1 = cabs(m[3:n + 3] - m[2:n + 2])
    w2 = cabs(m[1:n + 1] - m[0:n])
    t = (w1 * m[1:n + 1] + w2 * m[2:n + 2]) / (w1 + w2)
    out = np.zeros(len(x), dtype=y.dtype)
    for k, xv in enumerate(x):
        i = R._bracket(x_cp, xv)
        h = x_cp[i + 1] - x_cp[i]
        s = (xv - x_cp[i])
        c2 = (3 * m[i + 2] - 2 * t[i] - t[i + 1]) / h
        c3 = (t[i] + t[i + 1] - 2 * m[i + 2]) / h ** 2
        out[k] = y[i] + t[i] * s + c2 * s ** 2 + c3 * s ** 3
    return out


def gen_spline(rng, method=None):
    method = method or str(pick(rng, SPLINE_METHODS))
    vs = int(rng.integers(1, 4))
    nsp = int(pick(rng, [1, 1, 2]))
    opts = {'method': method, 'vec_size': vs}
    if method == 'bsplines':
        order = int(pick(rng, [2, 3, 4, 5]))
        n_cp = int(rng.integers(order + 1, order + 5))
        opts.update(num_cp=n_cp, order=order, default_order=bool(order == 4 and rng.random() < 0.5))
        lo = float(np.round(rng.uniform(-2, 2), 3))
        x = np.linspace(lo, lo + float(np.round(rng.uniform(0.5, 3), 3)), int(rng.integers(3, 9)))
        if rng.random() < 0.5:   # non-uniform interior points
            x[1:-1] = np.sort(np.round(rng.uniform(x[0] + 1e-3, x[-1] - 1e-3, size=len(x) - 2), 6))
        opts['x_interp'] = x.tolist()
    else:
        minpts = {'slinear': 2, 'lagrange2': 3, 'lagrange3': 4, 'cubic': 4, 'akima': 4, 'scipy_slinear': 2,
                  'scipy_cubic': 4, 'scipy_quintic': 6}[method]
        n_cp = int(rng.integers(minpts, minpts + 5))
        if rng.random() < 0.4:
            opts['num_cp'] = n_cp
            grid = np.linspace(0.0, 1.0, n_cp)
        else:
            steps = np.round(rng.uniform(0.2, 1.0, size=n_cp - 1), 4)
            start = float(np.round(rng.uniform(-3, 1), 3))
            grid = np.concatenate([[start], start + np.cumsum(steps)])
            opts['x_cp'] = grid.tolist()
        nx = int(rng.integers(1, 8))
        span = grid[-1] - grid[0]
        x = np.sort(np.round(rng.uniform(grid[0] + 1e-3 * span, grid[-1] - 1e-3 * span, size=nx), 6))
        if rng.random() < 0.3 and n_cp > 2:     # a point exactly on an interior node
            x[int(rng.integers(nx))] = grid[int(rng.integers(1, n_cp - 1))]
            x = np.sort(x)
        opts['x_interp'] = x.tolist()
    splines = []
    for k in range(nsp):
        u, su = units_pair(rng, 0.3)
        splines.append({'cp': 'ycp%d' % k, 'out': 'y%d' % k, 'units': u, 'src_units': su,
                        'y': rnd(rng, (vs, n_cp)).tolist(), 'give_val': bool(rng.random() < 0.5)})
    opts['splines'] = splines
    return {'comp': 'SplineComp', 'opts': opts, 'mode': str(pick(rng, ['fwd', 'rev']))}


def judge_spline(case, acc, seed):
    import openmdao.api as om
    o = case['opts']
    method, vs = o['method'], o['vec_size']
    x = np.array(o['x_interp'], dtype=float)
    ctx = Ctx(case, acc, 'SplineComp', method +
              ('+n_interp==vec_size' if (method == 'bsplines' and len(x) == vs) else '') +
              ('+4cp' if (method == 'akima' and len(o['splines'][0]['y'][0]) == 4) else '') +
              ('+num_cp' if 'num_cp' in o and method != 'bsplines' else ''))
    if method == 'bsplines':
        grid = None
    elif 'x_cp' in o:
        grid = np.array(o['x_cp'], dtype=float)
    else:
        grid = np.linspace(0.0, 1.0, o['num_cp'])
    order = o.get('order', 4)
    if method == 'akima':
        for s in o['splines']:
            for row in np.array(s['y'], dtype=float):
                mm = np.diff(row) / np.diff(grid)
                mm = np.concatenate([[2 * (2 * mm[0] - mm[1]) - mm[0], 2 * mm[0] - mm[1]], mm,
                                     [2 * mm[-1] - mm[-2], 2 * (2 * mm[-1] - mm[-2]) - mm[-1]]])
                if np.min(np.abs(np.diff(mm))) < 0.05:
                    acc.skip('akima-near-weight-kink')
                    return
                ref_s = R.spline('akima', grid, row, x)
                if not np.allclose(_akima(grid, row, x), ref_s, rtol=1e-11, atol=1e-12):
                    raise RuntimeError('harness: own Akima reference disagrees with SciPy')

    def one(meth, yrow):
        if meth == 'akima':
            return _akima(grid, yrow, x)
        return R.spline(meth, grid, yrow, x, order=order)

    ins = [_inp(s['cp'], (vs, len(s['y'][0])), s['y'], s['units'], s['src_units']) for s in o['splines']]
    outs = [{'name': s['out'], 'shape': [vs, len(x)]} for s in o['splines']]

    def make():
        kw = dict(method=method, x_interp_val=x.copy(), vec_size=vs)
        if method == 'bsplines':
            kw['num_cp'] = o['num_cp']
            if not o.get('default_order'):
                kw['interp_options'] = {'order': order}
        elif 'x_cp' in o:
            kw['x_cp_val'] = grid.copy()
        else:
            kw['num_cp'] = o['num_cp']
        c = om.SplineComp(**kw)
        for s in o['splines']:
            if s['give_val']:
                c.add_spline(y_cp_name=s['cp'], y_interp_name=s['out'], y_cp_val=np.ones((vs, len(s['y'][0]))),
                             y_units=s['units'])
            else:
                c.add_spline(y_cp_name=s['cp'], y_interp_name=s['out'], y_units=s['units'])
        return c

    def ref(xs):
        return [np.array([one(method, row) for row in y]) for y in xs]

    run_explicit(ctx, make, ins, outs, ref, seed)
    acc.count('spline:' + method)
    if len(o['splines']) > 1:
        acc.count('cell:multi')
    finish(ctx)


# ----------------------------------------------------------------------------------------------
# framework entry points
# ----------------------------------------------------------------------------------------------
GEN = {
    'AddSubtractComp': gen_addsub,
    'MuxComp': gen_mux,
    'DotProductComp': lambda rng: gen_products(rng, 'DotProductComp'),
    'CrossProductComp': lambda rng: gen_products(rng, 'CrossProductComp'),
    'MatrixVectorProductComp': lambda rng: gen_products(rng, 'MatrixVectorProductComp'),
    'VectorMagnitudeComp': lambda rng: gen_products(rng, 'VectorMagnitudeComp'),
    'EQConstraintComp': lambda rng: gen_eq(rng, 'EQConstraintComp'),
    'BalanceComp': lambda rng: gen_eq(rng, 'BalanceComp'),
    'LinearSystemComp': gen_linsys,
    'SplineComp': gen_spline,
}
JUDGE = {
    'AddSubtractComp': judge_addsub, 'MuxComp': judge_mux, 'DotProductComp': judge_products,
    'CrossProductComp': judge_products, 'MatrixVectorProductComp': judge_products,
    'VectorMagnitudeComp': judge_products, 'EQConstraintComp': judge_eqconstraint, 'BalanceComp': judge_balance,
    'LinearSystemComp': judge_linsys, 'SplineComp': judge_spline,
}


def shards(tier, seed):
    n, per = (16, 4) if tier == 'quick' else (40, 22)
    return [{'seed': seed * 4391 + k, 'k': k, 'per': per} for k in range(n)]


def run_shard(shard, acc):
    rng = np.random.default_rng(shard['seed'])
    for rep in range(shard['per']):
        for comp in COMPS:
            case = GEN[comp](rng)
            case['seed'] = int(shard['seed'] * 1000 + rep)
            JUDGE[comp](case, acc, case['seed'])
        # every spline method in turn so that each shard reaches all of them over its repetitions
        m = SPLINE_METHODS[(shard['k'] + rep) % len(SPLINE_METHODS)]
        case = gen_spline(rng, m)
        case['seed'] = int(shard['seed'] * 1000 + rep)
        judge_spline(case, acc, case['seed'])


def run_case(case, acc):
    JUDGE[case['comp']](case, acc, case.get('seed', 0))


def coverage_extra(tier, agg):
    return {'exhaustive': False}
