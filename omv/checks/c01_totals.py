"""C01 - Total derivatives equal the exact derivative of the converged model.

Monitor: reference-model oracle.  Each generated spec is built as a real OpenMDAO problem under several
configuration cells (derivative mode x linear-solver stack / assembled-jacobian format x return format x
declared design variables / responses with indices and driver scaling); every total-derivative API
(compute_totals in the three return formats, compute_jacvec_product fwd/rev, Driver._compute_totals) is
compared with R's exact total Jacobian (omv/ref/flatmodel.py: own indexing, own units, own Newton, implicit
function theorem, self-validated by complex step).  np.empty buffers of the derivative machinery are
poisoned (omv/kit/poison.py).
"""
import copy
import os
import random

import numpy as np

from omv.core import fingerprint
from omv.kit.gmon import SolverAbort, FailureMonitor, exc_key, spec_features, tree_solvers, conn_features
from omv.kit.poison import poison

PROPERTY = 'C01'
LEVEL = 'exploration'
TECHNIQUE = ('runtime monitoring: every total-derivative API of the real problem compared with an independent '
             'exact reference (implicit function theorem on the flattened spec) across configuration cells')
RULE = ('random model specs (DAGs and contractive feedback loops of explicit/implicit harness components, nested '
        'groups, promotions, src_indices chains, units, partial-declaration styles incl. sparse and matrix-free) '
        'x cells {fwd, rev} x {generated solver stack, root DirectSolver dict/dense/csc, root ScipyKrylov} x '
        'return formats x declared desvars/responses with indices and scaling; distinct = (wiring features, solver '
        'stack, cell); non-trivial = model has an index chain, unit conversion, implicit component or feedback loop '
        'and every solver reported convergence and cond(dF/du) < 1e8')
MIN_JUDGED = {'quick': 120, 'thorough': 3000}
REQUIRED_COUNTERS = ['obs:compute_totals-array', 'obs:compute_totals-dict', 'obs:jacvec-fwd', 'obs:jacvec-rev',
                     'obs:driver-totals', 'cell:mode=fwd', 'cell:mode=rev', 'cell:ln=direct-dense',
                     'cell:ln=direct-csc', 'cell:ln=direct-dict', 'cell:ln=krylov', 'cell:ln=krylov-csr', 'cell:ln=generated',
                     'obs:cyclic-model', 'obs:implicit-model', 'obs:indexed-model', 'obs:rhs-cache-hit-parallel',
                     'obs:rhs-cache-hit-antiparallel']
ASSUMPTIONS = ['R (omv/ref/flatmodel.py) is exact: its analytic Jacobian is re-validated against complex step on '
               'every case (oracle error => case discarded)',
               'cases where any solver reports non-convergence, or cond(dF/du) >= 1e8, are not judged',
               'no MPI / distributed variables']
SHARD_TIMEOUT = {'quick': 1200, 'thorough': 5400}

OPTS = dict(p_index=0.6, p_units=0.5, p_chain2=0.3, p_param=0.4, p_matfree=0.15, p_sparse=0.6, p_cycle=0.45,
            p_implicit=0.35, p_scaled_copy=0.35, p_rhs_checking=0.6, p_const_partials=0.35,
            p_assembled_iter=0.4)
TOL = 2e-7


def shards(tier, seed):
    n = 16 if tier == 'quick' else 64
    per = 10 if tier == 'quick' else 60
    return [{'seed': seed * 100000 + i * 1000, 'n': per, 'tier': tier} for i in range(n)]


def run_shard(shard, acc):
    for k in range(shard['n']):
        run_case({'seed': shard['seed'] + k, 'tier': shard.get('tier', 'quick')}, acc)


def _set_root_ln(spec, kind):
    sp = copy.deepcopy(spec)
    t = sp['tree']
    has_mf = any(c.get('matfree') for c in sp['comps'])
    if kind == 'direct-dict':
        t['ln'] = {'type': 'direct', 'assemble_jac': False}
    elif kind == 'direct-dense':
        t['ln'] = {'type': 'direct', 'assemble_jac': True, 'jac_type': 'dense'}
    elif kind == 'direct-csc':
        t['ln'] = {'type': 'direct', 'assemble_jac': True, 'jac_type': 'csc'}
    elif kind == 'krylov':
        t['ln'] = {'type': 'krylov'}
    elif kind == 'krylov-csr':
        t['ln'] = {'type': 'krylov', 'assemble_jac': True, 'jac_type': 'csr'}
    if kind in ('direct-dense', 'direct-csc', 'krylov-csr') and has_mf:
        return None
    if kind in ('krylov', 'krylov-csr') and t.get('nl', {}).get('type') == 'broyden':
        return None      # full-model Broyden documents that it requires a DirectSolver
    return sp


def _relerr(a, b):
    a = np.asarray(a, dtype=float)
    b = np.asarray(b, dtype=float)
    if a.shape != b.shape:
        return np.inf
    if a.size == 0:
        return 0.0
    if not np.all(np.isfinite(a)):
        return np.inf
    return float(np.max(np.abs(a - b)) / max(1.0, np.max(np.abs(b))))


def run_case(case, acc):
    from omv.gen import models as G
    from omv.ref.flatmodel import FlatModel
    rng = random.Random(case['seed'])
    if case['seed'] % 8 == 3:
        spec = G.gen_rhs_cache_spec(rng)     # structured family: linear-solution caching in reverse mode
    else:
        spec = G.gen_spec(rng, dict(OPTS))
    fm = FlatModel(spec)
    p = fm.p0()
    u, conv = fm.solve()
    if not conv:
        acc.skip('oracle-newton-not-converged')
        return
    if fm.selfcheck(u, p) > 1e-8:
        acc.skip('oracle-selfcheck-failed')
        return
    S, cond = fm.du_dp(u, p)
    if cond > 1e8:
        acc.skip('ill-conditioned')
        return
    of, wrt = spec['of'], spec['wrt']
    Jref = np.vstack([np.hstack([fm.total(o, w, u, p, S) for w in wrt]) for o in of])
    feats = spec_features(spec)
    tainted = any('KNOWN-nd-nonflat-single-index' in conn_features(spec, cn) for cn in spec['conns'])
    cyclic = any(nl not in ('runonce',) for nl, _ in tree_solvers(spec))
    has_imp = any(c['kind'] == 'imp' for c in spec['comps'])
    indexed = any(cn['chain'] for cn in spec['conns'])
    nontriv = cyclic or has_imp or indexed or spec['opts'].get('family') == 'rhs-cache'
    # configuration cells
    cells = [('generated', 'fwd'), ('generated', 'rev')]
    extra = ['direct-dict', 'direct-dense', 'direct-csc', 'krylov', 'krylov-csr']
    rng2 = random.Random(case['seed'] + 7)
    nextra = 2 if case.get('tier', 'quick') == 'quick' else 4
    for kind in rng2.sample(extra, nextra):
        cells.append((kind, rng2.choice(['fwd', 'rev'])))
    of_names = [G.top_name(spec, o) for o in of]
    wrt_names = [G.top_name(spec, w) for w in wrt]
    sizes_of = [fm.sizes[o] for o in of]
    sizes_wrt = [fm.sizes[w] for w in wrt]
    any_judged = False
    for kind, mode in cells:
        sp = spec if kind == 'generated' else _set_root_ln(spec, kind)
        if sp is None:
            continue
        ccase = dict(case, cell=[kind, mode])

        def K(what):
            if tainted:
                return 'nd-nonflat-single-index-model:' + what.split(':')[0]
            return '%s:ln=%s:mode=%s:%s' % (what, kind, mode, '+'.join(feats))
        with FailureMonitor() as fmon, poison(), _RhsCacheMonitor(acc):
            try:
                prob = G.build(sp)
                declared = rng2.random() < (0.7 if spec.get('force_of') else 0.4)
                if declared:
                    _declare_dv(prob, spec, fm, rng2, ccase)
                prob.setup(mode=mode)
                prob.run_model()
            except Exception as e:
                acc.viol(K(exc_key('setup-or-run', e)), '%s: %s' % (type(e).__name__, str(e)[:200]), ccase)
                continue
            if fmon.failures:
                acc.skip('nonlinear-solver-nonconvergence')
                prob.cleanup()
                continue
            # values must agree with R before derivatives are judged
            worst = 0.0
            for n in fm.state_names:
                worst = max(worst, _relerr(prob.get_val(G.abs_name(spec, n)).ravel(), fm.value(n, u, p).ravel()))
            if worst > 1e-7:
                # value disagreement is C04/C32 territory; here it only makes the derivative unjudgeable
                acc.skip('values-differ-from-reference')
                prob.cleanup()
                continue
            bad = []
            # a cell with a linear non-convergence report is not judged: stop at the first report (nested
            # non-converging block solvers otherwise run maxiter**depth sweeps)
            fmon.abort = True
            try:
                if not declared:
                    Ja = prob.compute_totals(of=of_names, wrt=wrt_names, return_format='array')
                    acc.count('obs:compute_totals-array')
                    e = _relerr(Ja, Jref)
                    if e > TOL:
                        bad.append(('totals-array', e, Ja))
                    Jd = prob.compute_totals(of=of_names, wrt=wrt_names, return_format='dict')
                    Jf = prob.compute_totals(of=of_names, wrt=wrt_names, return_format='flat_dict')
                    acc.count('obs:compute_totals-dict')
                    r0 = 0
                    for oi, o in enumerate(of_names):
                        c0 = 0
                        for wi, w in enumerate(wrt_names):
                            blk = Jref[r0:r0 + sizes_of[oi], c0:c0 + sizes_wrt[wi]]
                            for lab, got in (('dict', Jd[o][w]), ('flat_dict', Jf[o, w])):
                                e = _relerr(got, blk)
                                if e > TOL:
                                    bad.append(('totals-' + lab, e, got))
                            c0 += sizes_wrt[wi]
                        r0 += sizes_of[oi]
                    # jacobian-vector products
                    nr = np.random.default_rng(case['seed'])
                    v = [nr.uniform(-1, 1, fm.out_shape[w]) for w in wrt]
                    w_ = [nr.uniform(-1, 1, fm.out_shape[o]) for o in of]
                    # (only in the direction the problem was set up for: the other direction's transfers
                    #  do not exist and asking for it is a usage error)
                    if mode == 'fwd':
                        jv = prob.compute_jacvec_product(of_names, wrt_names, 'fwd', v, linearize=True)
                        acc.count('obs:jacvec-fwd')
                        ref = Jref @ np.concatenate([x.ravel() for x in v])
                        got = np.concatenate([np.asarray(jv[o]).ravel() for o in of_names])
                        e = _relerr(got, ref)
                        if e > TOL:
                            bad.append(('jacvec-fwd', e, got))
                    else:
                        vj = prob.compute_jacvec_product(of_names, wrt_names, 'rev', w_, linearize=True)
                        acc.count('obs:jacvec-rev')
                        ref = Jref.T @ np.concatenate([x.ravel() for x in w_])
                        got = np.concatenate([np.asarray(vj[w]).ravel() for w in wrt_names])
                        e = _relerr(got, ref)
                        if e > TOL:
                            bad.append(('jacvec-rev', e, got))
                # declared design variables / responses (indices + driver scaling)
                dv = ccase.get('_dv')
                if dv:
                    Jn = prob.compute_totals(return_format='array')
                    acc.count('obs:compute_totals-declared')
                    e = _relerr(Jn, _driver_ref(dv, fm, u, p, S, False))
                    if e > TOL:
                        bad.append(('totals-declared-array', e, Jn))
                    Js = prob.compute_totals(return_format='array', driver_scaling=True)
                    e = _relerr(Js, _driver_ref(dv, fm, u, p, S, True))
                    if e > TOL:
                        bad.append(('totals-declared-driver_scaling', e, Js))
                    # the driver's own (cached) path, as the optimizers call it
                    Jdrv = prob.driver._compute_totals(return_format='array', driver_scaling=True)
                    acc.count('obs:driver-totals')
                    e = _relerr(Jdrv, _driver_ref(dv, fm, u, p, S, True))
                    if e > TOL:
                        bad.append(('driver-totals-scaled', e, Jdrv))
            except SolverAbort:
                pass
            except Exception as e:
                if os.environ.get('OMV_DEBUG'):
                    import traceback
                    traceback.print_exc()
                fmon.abort = False
                acc.viol(K(exc_key('derivative-api', e)), '%s: %s' % (type(e).__name__, str(e)[:200]), ccase)
                prob.cleanup()
                continue
            fmon.abort = False
            lin_fail = list(fmon.failures)
        prob.cleanup()
        ccase.pop('_dv', None)
        if lin_fail and not bad:
            acc.skip('linear-solver-nonconvergence')
            continue
        if lin_fail and bad:
            acc.skip('linear-solver-nonconvergence')
            continue
        acc.count('cell:mode=%s' % mode)
        acc.count('cell:ln=%s' % kind)
        if cyclic:
            acc.count('obs:cyclic-model')
        if has_imp:
            acc.count('obs:implicit-model')
        if indexed:
            acc.count('obs:indexed-model')
        if bad:
            first = True
            for what, e, got in bad[:4]:
                acc.viol(K('wrong-' + what), '%s differs from exact total Jacobian: rel err %.3e (cond %.1e)' %
                         (what, e, cond), ccase, new_case=first)
                first = False
        else:
            acc.ok(fingerprint([feats, tree_solvers(sp), kind, mode]), nontrivial=nontriv,
                   sample={'seed': case['seed'], 'cell': [kind, mode], 'of': of, 'wrt': wrt,
                           'solvers': tree_solvers(sp), 'features': feats, 'cond': cond})


class _RhsCacheMonitor:
    """counts how often the linear-solution cache (rhs_checking) answered instead of a linear solve."""

    def __init__(self, acc):
        self.acc = acc

    def __enter__(self):
        from openmdao.solvers.linear.linear_rhs_checker import LinearRHSChecker
        self._cls = LinearRHSChecker
        self._orig = LinearRHSChecker.__dict__['get_solution']
        mon = self

        def get_solution(slf, rhs_arr, system):
            ncache = len(slf._caches)
            sol, is_zero = mon._orig(slf, rhs_arr, system)
            mon.acc.count('obs:rhs-cache-lookups')
            if sol is not None and np.any(rhs_arr != 0.0):
                # classify the hit by the cached right-hand side it was answered from
                kind = 'parallel'
                for rhs_c, sol_c, _ in slf._caches:
                    if np.array_equal(rhs_c, rhs_arr):
                        kind = 'equal'
                        break
                    if np.array_equal(rhs_c, -rhs_arr):
                        kind = 'negative'
                        break
                    if np.dot(rhs_c, rhs_arr) < 0 and kind == 'parallel' and \
                            abs(abs(np.dot(rhs_c, rhs_arr)) - np.linalg.norm(rhs_c) * np.linalg.norm(rhs_arr)) <= \
                            1e-12 * np.linalg.norm(rhs_c) * np.linalg.norm(rhs_arr):
                        kind = 'antiparallel'
                mon.acc.count('obs:rhs-cache-hit-' + kind)
            return sol, is_zero
        LinearRHSChecker.get_solution = get_solution
        return self

    def __exit__(self, *a):
        self._cls.get_solution = self._orig
        return False


def _declare_dv(prob, spec, fm, rng, ccase):
    """Declare design variables / responses with indices and scaling on the problem (driver path)."""
    from omv.gen import models as G
    dv = {'wrt': [], 'of': []}
    for w in spec['wrt']:
        n = fm.sizes[w]
        idx = None
        if n > 1 and rng.random() < 0.5:
            idx = sorted(rng.sample(range(n), rng.randint(1, n - 1)))
            if rng.random() < 0.3:
                idx = [i - n for i in idx]
        sc = _rand_scale(rng, n if idx is None else len(idx))
        kw = {}
        if idx is not None:
            kw['indices'] = idx
            kw['flat_indices'] = True
        kw.update(sc['kw'])
        prob.model.add_design_var(G.top_name(spec, w), **kw)
        dv['wrt'].append({'name': w, 'idx': idx, 'scaler': sc['scaler']})
    for k, o in enumerate(spec['of']):
        n = fm.sizes[o]
        if k == 0:
            idx = [rng.randrange(n)]
            sc = _rand_scale(rng, 1, scalar=True)
            prob.model.add_objective(G.top_name(spec, o), index=idx[0], flat_indices=True, **sc['kw'])
        else:
            idx = None
            if n > 1 and rng.random() < 0.5:
                idx = sorted(rng.sample(range(n), rng.randint(1, n - 1)))
            sc = _rand_scale(rng, n if idx is None else len(idx))
            kw = dict(sc['kw'])
            if idx is not None:
                kw['indices'] = idx
                kw['flat_indices'] = True
            prob.model.add_constraint(G.top_name(spec, o), upper=1e3, **kw)
        dv['of'].append({'name': o, 'idx': idx, 'scaler': sc['scaler']})
    ccase['_dv'] = dv


def _rand_scale(rng, n, scalar=False):
    k = rng.random()
    if k < 0.35:
        return {'kw': {}, 'scaler': 1.0}
    if k < 0.7 or scalar or n == 1:
        if rng.random() < 0.5:
            s = round(10 ** rng.uniform(-2, 2), 3) * rng.choice([1, 1, -1])
            return {'kw': {'scaler': s, 'adder': round(rng.uniform(-2, 2), 2)}, 'scaler': s}
        ref0 = round(rng.uniform(-2, 2), 2)
        ref = ref0 + round(10 ** rng.uniform(-1, 1.5), 3) * rng.choice([1, 1, -1])
        return {'kw': {'ref': ref, 'ref0': ref0}, 'scaler': 1.0 / (ref - ref0)}
    s = [round(10 ** rng.uniform(-2, 2), 3) for _ in range(n)]
    return {'kw': {'scaler': np.array(s)}, 'scaler': np.array(s)}


def _driver_ref(dv, fm, u, p, S, scaling):
    rows = []
    for o in dv['of']:
        cols = []
        for w in dv['wrt']:
            J = fm.total(o['name'], w['name'], u, p, S)
            if o['idx'] is not None:
                J = J[o['idx'], :]
            if w['idx'] is not None:
                J = J[:, w['idx']]
            if scaling:
                so = np.atleast_1d(np.asarray(o['scaler'], dtype=float))
                sw = np.atleast_1d(np.asarray(w['scaler'], dtype=float))
                J = J * so.reshape(-1, 1) if so.size > 1 else J * so[0]
                J = J / sw.reshape(1, -1) if sw.size > 1 else J / sw[0]
            cols.append(J)
        rows.append(np.hstack(cols))
    return np.vstack(rows)
