"""C20 - Driver scaling is an exact, invertible affine map applied consistently.

Monitor: reference-formula comparison at the driver API.  For random tiny QP-harness problems
(f = 1/2 z'Qz + c'z, g = A z + b) with every combination of scaler/adder/ref/ref0 (scalar, array),
declared units (incl. offset units) and indices/aliases, the harness computes with NumPy and its own
unit table what the optimizer must see and compares

  values     get_design_var_values / get_objective_values / get_constraint_values (driver_scaling T/F)
  bounds     autoscaler.get_bounds_scaling('design_var'|'constraint')  vs the image of the declared bounds
  round trip set optimizer-space values -> model (get_val) -> get optimizer-space values
  jacobians  Driver._compute_totals (flat_dict / dict / array; all responses, and the linear-constraint
             Jacobian the optimizers request) and Problem.compute_totals(driver_scaling=True)
  multipliers compute_lagrange_multipliers(driver_scaling=False) at the exact optimum vs the KKT multipliers
             of the exact QP solution in declared units (hence independent of the scaling)

The clause "plus symbolic proof of the affine formulas" of the property's quantifier is out of reach of
runtime monitoring: the formulas are only evaluated numerically.
"""
import numpy as np

from omv.core import fingerprint
from omv.ref import affine as af
from omv.ref import qpspec

PROPERTY = 'C20'
LEVEL = 'exploration'
TECHNIQUE = 'runtime monitoring: driver-side values/bounds/jacobians/multipliers vs closed-form affine maps'
RULE = ('random QP-harness problems (1-4 design variables in 1-2 inputs incl. indices, 1-4 constraint elements in '
        '1-2 constraints incl. indices+alias, equality/inequality, scalar/array bounds with holes, linear flag) x '
        'scalings {none, scaler/adder, ref/ref0} x {scalar, array} x declared units (length/time/temperature with '
        'offsets) ; a separate stratum uses negative scalers; distinct = distinct (structure incl. scaling tags, '
        'observable); non-trivial = at least one variable of interest carries a scaling or a unit conversion')
LEVEL_TEXT = ('sampled exploration; each observable compared elementwise with the closed form. No symbolic proof '
              'of the affine formulas (out of reach of this technique).')
ASSUMPTIONS = [
    'optimizer value = (value in declared units + adder) * scaler with scaler=1/(ref-ref0), adder=-ref0; unit '
    'conversion from the harness table (m/cm/km/ft/inch/mm, s/min/ms, degK/degC/degF)',
    'bounds are declared in declared units, unscaled; +-1e30 means absent and stays +-1e30',
    'the image of [lower, upper] under a negative scaler is [scaler*(upper+adder), scaler*(lower+adder)] '
    '(exercised only in the neg-scaler stratum, keys neg-scaler:*)',
    'multipliers are judged only when the exact optimum satisfies LICQ and strict complementarity, inactive '
    'bounds are >= 1e-4 (scaled) away, and the scaled active Jacobian has condition <= 1e6',
    'tolerances: values/bounds/round-trip 1e-12 relative to the magnitudes of the operands of the affine maps; '
    'jacobians 1e-10 relative to the largest entry of the block; multipliers 1e-7*cond',
]
MIN_JUDGED = {'quick': 300, 'thorough': 5000}
REQUIRED_COUNTERS = ['obs:values', 'obs:bounds', 'obs:roundtrip', 'obs:jac:_compute_totals:flat_dict',
                     'obs:jac:_compute_totals:array', 'obs:jac:_compute_totals:dict',
                     'obs:jac:problem.compute_totals', 'obs:jac:linear-constraints', 'obs:lagrange-compared',
                     'obs:array-scaler', 'obs:ref-ref0', 'obs:units', 'obs:offset-units', 'obs:indices',
                     'obs:alias', 'obs:equality', 'obs:inf-bound-preserved']
SHARD_TIMEOUT = {'quick': 600, 'thorough': 3000}


def gen(rng, neg):
    return qpspec.random_spec(rng, n_max=4, m_max=4, allow_neg=neg, scaling=True, units=True, dv_indices=True,
                              equality=True, split_cons=True, dv_bounds='some', margin=1.0, units_p=0.5,
                              offsets=True, mag_range=(0.02, 50.0))


def _tags(voi):
    t = af.scaling_tags(voi['sc'], voi['size'])
    if voi['units'] != voi['munits']:
        t.append('units')
    return t


def _mag(voi, vm):
    """magnitude of the operands of the affine map model -> optimizer for round-off tolerances."""
    ufac, uoff = af.unit_affine(voi['munits'], voi['units'])
    s, a = af.scaler_adder(voi['sc'], voi['size'])
    return np.abs(s) * (np.abs(a) + abs(ufac) * (np.abs(vm) + abs(uoff))) + 1e-300


def _stratum(voi, neg):
    t = _tags(voi)
    return ('neg-scaler:' if (neg and 'neg' in t) else '') + '+'.join(x for x in t if x != 'neg')


def judge(case, acc):
    import openmdao.api as om
    from omv.gen import qpmodel
    spec = case['spec']
    neg = bool(case.get('neg'))
    ref = qpspec.RefModel(spec)
    st = qpspec.structure(spec)
    z = np.asarray(case['z'], float)
    p = None
    vois = ref.dvs + ref.cons + [ref.obj]
    nontrivial = any(t != ['noscale'] for t in (_tags(v) for v in vois))
    for v in vois:
        tg = _tags(v)
        if 'array' in tg:
            acc.count('obs:array-scaler')
        if 'ref' in tg:
            acc.count('obs:ref-ref0')
        if 'units' in tg:
            acc.count('obs:units')
            if af.unit_affine(v['munits'], v['units'])[1] != 0.0:
                acc.count('obs:offset-units')
        if v['d'].get('indices') is not None:
            acc.count('obs:indices')
        if v['d'].get('alias'):
            acc.count('obs:alias')
        if v['d'].get('equals') is not None:
            acc.count('obs:equality')
    bad = []

    def flag(key, what):
        bad.append((key, what))

    try:
        drv = om.ScipyOptimizeDriver(optimizer='SLSQP', disp=False)
        p, comp = qpmodel.build(spec, driver=drv)
        p.final_setup()
        qpmodel.set_z(p, spec, z)
        p.run_model()
        zz = qpmodel.get_z(p, spec)
        fp = fingerprint({'st': st, 'neg': neg})

        # ---- values ------------------------------------------------------------------------
        refv = {}
        refv.update({k: (ref.dvs[i], v) for i, (k, v) in enumerate(ref.dv_vals(zz).items())})
        refv.update({k: (ref.cons[i], v) for i, (k, v) in enumerate(ref.con_vals(zz).items())})
        refv['f'] = (ref.obj, ref.obj_vals(zz)['f'])
        for ds in (True, False):
            try:
                got = {}
                got.update(drv.get_design_var_values(driver_scaling=ds))
                got.update(drv.get_constraint_values(driver_scaling=ds))
                got.update(drv.get_objective_values(driver_scaling=ds))
            except Exception as e:   # noqa
                flag('values:raises:%s' % type(e).__name__, str(e)[:200])
                continue
            acc.count('obs:values')
            for k, (voi, tr) in refv.items():
                want = tr['scaled'] if ds else tr['declared']
                g_ = np.asarray(got.get(k, np.nan), float).ravel()
                tol = 1e-12 * (_mag(voi, tr['model']) + np.abs(want) + 1.0)
                if g_.shape != want.shape or not np.all(np.abs(g_ - want) <= tol):
                    kind = 'design_var' if voi in ref.dvs else ('constraint' if voi in ref.cons else 'objective')
                    flag('values:%s:driver_scaling-%s:%s' % (kind, 'true' if ds else 'false', _stratum(voi, neg)),
                         '%s: got %s want %s (model %s, units %s->%s, scaling %s)' % (
                             k, g_.tolist(), want.tolist(), tr['model'].tolist(), voi['munits'], voi['units'],
                             voi['sc']))

        # ---- bounds ------------------------------------------------------------------------
        for vt, lst in (('design_var', ref.dvs), ('constraint', ref.cons)):
            try:
                lo_v, hi_v, eq_v = drv._autoscaler.get_bounds_scaling(vt)
            except Exception as e:   # noqa
                flag('bounds:%s:raises:%s' % (vt, type(e).__name__), str(e)[:200])
                continue
            for voi in lst:
                acc.count('obs:bounds')
                lo, hi = ref.bounds(voi)
                lo_s, hi_s, lo_n, hi_n = af.image_bounds(lo, hi, voi['sc'])
                s, a = af.scaler_adder(voi['sc'], voi['size'])
                gl = np.asarray(lo_v[voi['key']], float).ravel()
                gh = np.asarray(hi_v[voi['key']], float).ravel()
                mag = np.abs(s) * (np.abs(a) + np.where(np.abs(lo) < af.INF_BOUND, np.abs(lo), 0.0) +
                                   np.where(np.abs(hi) < af.INF_BOUND, np.abs(hi), 0.0)) + 1.0
                tol = 1e-12 * mag
                eqc = voi['d'].get('equals') is not None
                if np.any(np.abs(lo) >= af.INF_BOUND) or np.any(np.abs(hi) >= af.INF_BOUND):
                    acc.count('obs:inf-bound-preserved')
                if eqc:
                    ge = np.asarray(eq_v[voi['key']], float).ravel()
                    want = (lo + a) * s
                    if ge.shape != want.shape or not np.all(np.abs(ge - want) <= tol):
                        flag('bounds:%s:equals:%s' % (vt, _stratum(voi, neg)),
                             '%s: equals seen by optimizer %s, image %s' % (voi['key'], ge.tolist(), want.tolist()))
                    continue
                okimg = gl.shape == lo_s.shape and np.all(np.abs(gl - lo_s) <= tol) and \
                    np.all(np.abs(gh - hi_s) <= tol)
                if not okimg:
                    naive = gl.shape == lo_n.shape and np.all(np.abs(gl - lo_n) <= tol) and \
                        np.all(np.abs(gh - hi_n) <= tol)
                    if np.any(s < 0) and naive:
                        flag('neg-scaler:bounds:%s:end-points-mapped-but-not-reordered' % vt,
                             '%s: optimizer sees lower=%s upper=%s; image of [%s, %s] under scaler %s is [%s, %s]'
                             % (voi['key'], gl.tolist(), gh.tolist(), lo.tolist(), hi.tolist(), s.tolist(),
                                lo_s.tolist(), hi_s.tolist()))
                    else:
                        flag('bounds:%s:not-the-image:%s:%s' % (
                            vt, 'array-bounds' if isinstance(voi['d'].get('lower') or voi['d'].get('upper'), list)
                            else 'scalar-bounds', _stratum(voi, neg)),
                            '%s: optimizer sees lower=%s upper=%s; image is [%s, %s]' % (
                                voi['key'], gl.tolist(), gh.tolist(), lo_s.tolist(), hi_s.tolist()))

        # ---- round trip: optimizer space -> model -> optimizer space ---------------------------
        try:
            rng = np.random.default_rng(case.get('yseed', 0))
            y = {d['key']: np.round(ref.dv_vals(zz)[d['key']]['scaled'] + rng.normal(size=d['size']), 6)
                 for d in ref.dvs}
            yvec = np.concatenate([y[d['key']] for d in ref.dvs])
            dv_vec = drv._vectors['design_var']
            dv_vec.set_data(yvec.copy(), driver_scaling=True)
            drv._set_design_vars(driver_scaling=True)
            z_got = qpmodel.get_z(p, spec)
            z_want = ref.z_from_scaled(zz, y)
            acc.count('obs:roundtrip')
            tolz = np.ones(ref.n) * 1e-300
            for d in ref.dvs:
                ufac, uoff = af.unit_affine(d['munits'], d['units'])
                s, a = af.scaler_adder(d['sc'], d['size'])
                tolz[d['pos']] = 1e-12 * (np.abs(z_want[d['pos']]) + abs(uoff) + (np.abs(y[d['key']] / s) +
                                                                                 np.abs(a)) / abs(ufac) + 1e-30)
            if not np.all(np.abs(z_got - z_want) <= tolz):
                worst = max(ref.dvs, key=lambda d: np.max(np.abs(z_got[d['pos']] - z_want[d['pos']]) /
                                                          tolz[d['pos']]))
                flag('roundtrip:model-value-after-set:%s%s' % (
                    _stratum(worst, neg), ':indices' if worst['d'].get('indices') is not None else ''),
                    'set optimizer values %s -> model z=%s, want %s' % (
                        {k: v.tolist() for k, v in y.items()}, z_got.tolist(), z_want.tolist()))
            else:
                back = drv.get_design_var_values(driver_scaling=True)
                for d in ref.dvs:
                    b_ = np.asarray(back[d['key']], float).ravel()
                    tol = 4e-12 * (_mag(d, z_want[d['pos']]) + np.abs(y[d['key']]) + 1.0)
                    if b_.shape != y[d['key']].shape or not np.all(np.abs(b_ - y[d['key']]) <= tol):
                        flag('roundtrip:get-after-set-not-identity:%s' % _stratum(d, neg),
                             '%s: set %s, got back %s' % (d['key'], y[d['key']].tolist(), b_.tolist()))
            # restore
            qpmodel.set_z(p, spec, zz)
            p.run_model()
        except Exception as e:   # noqa
            flag('roundtrip:raises:%s' % type(e).__name__, str(e)[:200])

        # ---- jacobians ---------------------------------------------------------------------
        Jref = ref.jac(zz, scaled=True)
        lin = [c['key'] for c in ref.cons if c['d'].get('linear')]
        nl = ['f'] + [c['key'] for c in ref.cons if not c['d'].get('linear')]
        dvn = [d['key'] for d in ref.dvs]
        sizes = {v['key']: v['size'] for v in vois}

        def cmp_blocks(getblock, ofs, label, strat_of=None):
            for of in ofs:
                for wrt in dvn:
                    want = Jref[(of, wrt)]
                    try:
                        got = np.asarray(getblock(of, wrt), float).reshape(want.shape)
                    except Exception as e:   # noqa
                        flag('jac:%s:block-missing-or-misshaped:%s' % (label, type(e).__name__),
                             '(%s,%s): %s' % (of, wrt, str(e)[:120]))
                        return
                    tol = 1e-10 * (np.max(np.abs(want)) + 1e-300)
                    if not np.all(np.abs(got - want) <= tol):
                        ov = [v for v in vois if v['key'] == of][0]
                        wv = [v for v in vois if v['key'] == wrt][0]
                        # which ingredient is missing ?  compare with the closed form lacking unit factors
                        uo = af.unit_affine(ov['munits'], ov['units'])[0]
                        uw = af.unit_affine(wv['munits'], wv['units'])[0]
                        nounits = want / uo * uw
                        how = 'declared-units-ignored' if (uo != 1.0 or uw != 1.0) and \
                            np.all(np.abs(got - nounits) <= 1e-10 * (np.max(np.abs(nounits)) + 1e-300)) else 'value'
                        if how == 'declared-units-ignored':
                            key = 'jac:%s:declared-units-ignored' % label
                        else:
                            key = '%sjac:%s:%s:of=%s:wrt=%s' % (
                                'neg-scaler:' if neg and ('neg' in _tags(ov) or 'neg' in _tags(wv)) else '',
                                label, how, '+'.join(x for x in _tags(ov) if x != 'neg'),
                                '+'.join(x for x in _tags(wv) if x != 'neg'))
                        flag(key, 'd%s/d%s: got %s want %s' % (of, wrt, got.tolist(), want.tolist()))
                        return

        def reset():
            drv._total_jac = None
            drv._total_jac_linear = None

        for fmt in ('flat_dict', 'dict', 'array'):
            try:
                reset()
                J = drv._compute_totals(of=nl, wrt=dvn, return_format=fmt)
                acc.count('obs:jac:_compute_totals:' + fmt)
                if fmt == 'flat_dict':
                    cmp_blocks(lambda o, w: J[o, w], nl, '_compute_totals-flat_dict')
                elif fmt == 'dict':
                    cmp_blocks(lambda o, w: J[o][w], nl, '_compute_totals-dict')
                else:
                    ro = np.cumsum([0] + [sizes[o] for o in nl])
                    co = np.cumsum([0] + [sizes[w] for w in dvn])
                    J = np.asarray(J)
                    cmp_blocks(lambda o, w: J[ro[nl.index(o)]:ro[nl.index(o) + 1],
                                              co[dvn.index(w)]:co[dvn.index(w) + 1]], nl, '_compute_totals-array')
            except Exception as e:   # noqa
                flag('jac:_compute_totals-%s:raises:%s' % (fmt, type(e).__name__), str(e)[:200])
        if lin:
            try:
                reset()
                J = np.asarray(drv._compute_totals(of=lin, wrt=dvn, return_format='array'))
                acc.count('obs:jac:linear-constraints')
                ro = np.cumsum([0] + [sizes[o] for o in lin])
                co = np.cumsum([0] + [sizes[w] for w in dvn])
                cmp_blocks(lambda o, w: J[ro[lin.index(o)]:ro[lin.index(o) + 1],
                                          co[dvn.index(w)]:co[dvn.index(w) + 1]], lin,
                           '_compute_totals-linear-constraints')
            except Exception as e:   # noqa
                flag('jac:_compute_totals-linear-constraints:raises:%s' % type(e).__name__, str(e)[:200])
        try:
            reset()
            allof = ['f'] + [c['key'] for c in ref.cons]
            J = p.compute_totals(of=allof, wrt=dvn, driver_scaling=True)
            acc.count('obs:jac:problem.compute_totals')
            cmp_blocks(lambda o, w: J[o, w], allof, 'problem.compute_totals')
        except Exception as e:   # noqa
            flag('jac:problem.compute_totals:raises:%s' % type(e).__name__, str(e)[:200])
        reset()

        # ---- Lagrange multipliers at the exact optimum -----------------------------------------
        if case.get('lagrange', True) and not neg:
            _lagrange(acc, p, drv, ref, spec, flag)

        if bad:
            seen = set()
            first = True
            for key, what in bad:
                if key in seen:
                    continue
                seen.add(key)
                acc.viol(key, what, case, fp=fp, new_case=first)
                first = False
        else:
            acc.ok(fp, nontrivial=nontrivial, sample=case if acc.judged % 151 == 0 else None)
    finally:
        if p is not None:
            try:
                p.cleanup()
            except Exception:
                pass


def _lagrange(acc, p, drv, ref, spec, flag):
    from omv.gen import qpmodel
    ex = ref.exact()
    if ex is None:
        acc.count('guard:lagrange:reference-infeasible')
        return
    q = ex['qp']
    if max(q['kkt']) > 1e-8 or not q['licq'] or not q['strict']:
        acc.count('guard:lagrange:degenerate-optimum')
        return
    if not np.any(q['active'] != 0):
        acc.count('guard:lagrange:no-active-constraint')
        return
    zs = ex['z']
    # scaled gaps of inactive bounds and scaled conditioning of the active set
    rows = []
    for voi, kind, vals in [(c, 'con', ref.con_vals(zs)[c['key']]) for c in ref.cons] + \
                           [(d, 'dv', ref.dv_vals(zs)[d['key']]) for d in ref.dvs]:
        lo, hi = ref.bounds(voi)
        lo_s, hi_s, _, _ = af.image_bounds(lo, hi, voi['sc'])
        act = ex['active'][(kind, voi['key'])]
        vs = vals['scaled']
        for k in range(voi['size']):
            for b in (lo_s[k], hi_s[k]):
                if abs(b) >= af.INF_BOUND:
                    continue
                gap = abs(vs[k] - b)
                if act[k] == 0 and gap < 1e-4 * (1 + abs(b)):
                    acc.count('guard:lagrange:inactive-bound-too-close-in-scaled-space')
                    return
                if act[k] != 0 and voi['d'].get('equals') is None and gap > 1e-8 * (1 + abs(b)) and \
                        ((act[k] == 1 and b == hi_s[k]) or (act[k] == -1 and b == lo_s[k])):
                    acc.count('guard:lagrange:active-bound-not-tight-in-scaled-space')
                    return
            if act[k] != 0:
                if kind == 'con':
                    J = ref.jac(zs, scaled=True)
                    rows.append(np.concatenate([J[(voi['key'], d['key'])][k] for d in ref.dvs]))
                else:
                    e = np.zeros(sum(d['size'] for d in ref.dvs))
                    off = 0
                    for d in ref.dvs:
                        if d is voi:
                            e[off + k] = 1.0
                        off += d['size']
                    rows.append(e)
    sv = np.linalg.svd(np.asarray(rows), compute_uv=False)
    cond = float(sv[0] / sv[-1]) if sv[-1] > 0 else np.inf
    if cond > 1e6:
        acc.count('guard:lagrange:ill-conditioned-active-set')
        return
    qpmodel.set_z(p, spec, zs)
    p.run_model()
    arr_scaler = any('array' in af.scaling_tags(v['sc'], v['size']) and
                     np.size(af.scaling_kwargs(v['sc']).get('scaler', af.scaling_kwargs(v['sc']).get('ref', 1.0))) > 1
                     for v in ref.dvs + ref.cons)
    for sparse in (False, True):
        try:
            adv, acon = drv.compute_lagrange_multipliers(driver_scaling=False, use_sparse_solve=sparse)
        except Exception as e:   # noqa
            import traceback
            tb = traceback.extract_tb(e.__traceback__)
            where = [fr.name for fr in tb if '/openmdao/' in fr.filename][-1:] or ['?']
            flag('lagrange:raises:%s@%s:%s' % (type(e).__name__, where[0],
                                                'array-scaler' if arr_scaler else 'scalar-scalers'),
                 '%s: %s' % (type(e).__name__, str(e)[:200]))
            return
        acc.count('obs:lagrange-compared')
        lam_max = max([np.max(np.abs(v)) for v in ex['mult'].values()] + [0.0])
        uf = af.unit_affine(ref.obj['munits'], ref.obj['units'])[0]
        results = {}
        for conv in ('model-units', 'declared-units'):
            # the exact multipliers are d f/d bound with f and the bound in declared units; in model units
            # they are multiplied by ufac(constraint)/ufac(objective)
            mism = []
            lmax = 0.0
            for kind, lst, got in (('con', ref.cons, acon), ('dv', ref.dvs, adv)):
                for voi in lst:
                    uv = af.unit_affine(voi['munits'], voi['units'])[0]
                    want = ex['mult'][(kind, voi['key'])] * ((uv / uf) if conv == 'model-units' else 1.0)
                    lmax = max(lmax, float(np.max(np.abs(want))))
                    act = ex['active'][(kind, voi['key'])]
                    if voi['key'] not in got:
                        if np.any(act != 0):
                            mism.append(('lagrange:active-%s-not-reported' % (
                                'constraint' if kind == 'con' else 'design-var'),
                                '%s active %s but absent from the result' % (voi['key'], act.tolist()), None))
                        continue
                    g_ = np.asarray(got[voi['key']]['multipliers'], float).ravel()
                    mism.append((kind, voi, g_, want))
            tol = (1e-7 if not sparse else 1e-4) * cond * (1.0 + lmax)
            out = []
            for m in mism:
                if m[2] is None:
                    out.append((m[0], m[1]))
                    continue
                kind, voi, g_, want = m
                if g_.shape != want.shape or not np.all(np.abs(g_ - want) <= tol):
                    t = '+'.join(x for x in _tags(voi) if x != 'units')
                    ot = '+'.join(x for x in _tags(ref.obj) if x != 'units')
                    out.append(('lagrange:%s-multiplier-depends-on-scaling:%s:obj=%s:%s' % (
                        'constraint' if kind == 'con' else 'design-var-bound', t, ot,
                        'sparse' if sparse else 'dense'),
                        '%s: multipliers %s, exact (%s) %s, tol %.2g' % (
                            voi['key'], g_.tolist(), conv, want.tolist(), tol)))
            results[conv] = out
        if not results['model-units']:
            acc.count('obs:lagrange-in-model-units')
        elif not results['declared-units']:
            acc.count('obs:lagrange-in-declared-units')
        else:
            for key, what in results['model-units']:
                flag(key, what)


# ----------------------------------------------------------------------------------------------
def shards(tier, seed):
    nsh = 16 if tier == 'quick' else 32
    n = 30 if tier == 'quick' else 260
    return [{'seed': seed * 100003 + 32452843 * k + 17, 'n': n} for k in range(nsh)]


def run_shard(shard, acc):
    rng = np.random.default_rng(shard['seed'])
    for i in range(shard['n']):
        neg = (i % 6 == 5)
        spec = gen(rng, neg)
        n = len(spec['x0'])
        z = np.round(np.asarray(spec['x0']) + rng.normal(size=n), 9)
        judge({'spec': spec, 'z': z.tolist(), 'neg': neg, 'yseed': int(rng.integers(1 << 30))}, acc)


def run_case(case, acc):
    judge(case, acc)
