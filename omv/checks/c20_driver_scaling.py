"""C20 - Driver scaling is an exact, invertible affine map applied consistently.

Monitor: reference-formula comparison at the driver API.  For random tiny QP-harness problems
(f = 1/2 z'Qz + c'z, g = A z + b) with every combination of scaler/adder/ref/ref0 (scalar, array),
declared units (incl. offset units) and indices/aliases, the harness computes with NumPy and its own
unit table what the optimizer must see and compares

  values     get_design_var_values / get_objective_values / get_constraint_values (driver_scaling T/F)
  bounds     autoscaler.get_bounds_scaling('design_var'|'constraint')  vs the image of the declared bounds
  round trip set optimizer-space values -> model (get_val) -> get optimizer-space values
  write paths every way a driver writes a design variable, each followed by the model value (get_val) and
             get_design_var_values(driver_scaling=False / True):  the optimizer vector + _set_design_vars (the
             round trip above);  Driver._set_design_var(name, value[, set_remote][, units]) without units (value
             in the declared units - what DOEDriver, SimpleGADriver, DifferentialEvolutionDriver and the pymoo
             mixed path call), with units= the declared units, with units= another unit of the family;  the
             public Driver.set_design_var (counted as guard while its expired deprecation makes it refuse every
             call);  a DOEDriver run over a ListGenerator (two cases, the second possibly naming a subset);  one
             generation of DifferentialEvolutionDriver / SimpleGADriver (every point they write, observed at
             Driver._set_design_var / _run_solve_nonlinear).  Entries of the source that the design variable
             does not address (indices) must keep their values.
  GA / DE    the start is a member of the first generation (the start handed to the algorithm and the values it
             writes live in one space) and the penalized objective compares each constraint value with its
             bound in one space (both driver-scaled or both in declared units)
  jacobians  Driver._compute_totals (flat_dict / dict / array; all responses, and the linear-constraint
             Jacobian the optimizers request) and Problem.compute_totals(driver_scaling=True)
  multipliers compute_lagrange_multipliers(driver_scaling=False) at the exact optimum vs the KKT multipliers
             of the exact QP solution in declared units (hence independent of the scaling)

The clause "plus symbolic proof of the affine formulas" of the property's quantifier is out of reach of
runtime monitoring: the formulas are only evaluated numerically.
"""
import numpy as np

from omv.core import fingerprint
from omv.ref import affine as af
from omv.ref import qpspec

PROPERTY = 'C20'
LEVEL = 'exploration'
TECHNIQUE = 'runtime monitoring: driver-side values/bounds/jacobians/multipliers vs closed-form affine maps'
RULE = ('random QP-harness problems (1-4 design variables in 1-2 inputs incl. indices, 1-4 constraint elements in '
        '1-2 constraints incl. indices+alias, equality/inequality, scalar/array bounds with holes, linear flag) x '
        'scalings {none, scaler/adder, ref/ref0} x {scalar, array} x declared units (length/time/temperature with '
        'offsets) ; a separate stratum uses negative scalers; distinct = distinct (structure incl. scaling tags, '
        'observable); non-trivial = at least one variable of interest carries a scaling or a unit conversion; '
        'write paths: Driver._set_design_var {no units, units=declared, units=other unit} x value form {array, '
        'list, float} x set_remote on every case, DOEDriver(ListGenerator) on every 2nd case, one generation '
        '(pop_size 4) of DifferentialEvolutionDriver / SimpleGADriver (10-14 bits, gray or not) on every 4th '
        'case each, with finite two-sided design-variable bounds around the start and one-sided constraints')
LEVEL_TEXT = ('sampled exploration; each observable compared elementwise with the closed form. No symbolic proof '
              'of the affine formulas (out of reach of this technique).')
ASSUMPTIONS = [
    'optimizer value = (value in declared units + adder) * scaler with scaler=1/(ref-ref0), adder=-ref0; unit '
    'conversion from the harness table (m/cm/km/ft/inch/mm, s/min/ms, degK/degC/degF)',
    'bounds are declared in declared units, unscaled; +-1e30 means absent and stays +-1e30',
    'the image of [lower, upper] under a negative scaler is [scaler*(upper+adder), scaler*(lower+adder)] '
    '(exercised only in the neg-scaler stratum, keys neg-scaler:*)',
    'multipliers are judged only when the exact optimum satisfies LICQ and strict complementarity, inactive '
    'bounds are >= 1e-4 (scaled) away, and the scaled active Jacobian has condition <= 1e6',
    'tolerances: values/bounds/round-trip 1e-12 relative to the magnitudes of the operands of the affine maps; '
    'jacobians 1e-10 relative to the largest entry of the block; multipliers 1e-7*cond',
    'a value given to Driver._set_design_var / listed in a DOE case is the unscaled design-variable value in the '
    'declared units (in `units` when units= is passed); get_design_var_values(driver_scaling=False) must return '
    'it and the model must hold its image under the unit map',
    'SimpleGADriver / DifferentialEvolutionDriver put the start into the first generation (DE verbatim, GA '
    'rounded to the resolution (upper-lower)/(2**bits-1) of its encoding); their penalized objective is '
    'objective (driver-scaled) + penalty_parameter * sum(violation ** penalty_exponent); either space is '
    'accepted for the violations as long as value and bound share it (not judged with negative scalers)',
]
MIN_JUDGED = {'quick': 300, 'thorough': 5000}
REQUIRED_COUNTERS = ['obs:values', 'obs:bounds', 'obs:roundtrip', 'obs:jac:_compute_totals:flat_dict',
                     'obs:jac:_compute_totals:array', 'obs:jac:_compute_totals:dict',
                     'obs:jac:problem.compute_totals', 'obs:jac:linear-constraints', 'obs:lagrange-compared',
                     'obs:array-scaler', 'obs:ref-ref0', 'obs:units', 'obs:offset-units', 'obs:indices',
                     'obs:alias', 'obs:equality', 'obs:inf-bound-preserved',
                     'obs:write:_set_design_var', 'obs:write:explicit-other-units', 'obs:write:doe-list',
                     'obs:write:de', 'obs:write:ga', 'obs:write:declared-units-implied:_set_design_var',
                     'obs:write:declared-units-implied:doe-list', 'obs:write:declared-units-implied:de',
                     'obs:write:declared-units-implied:ga', 'obs:write:declared-offset-units-implied',
                     'obs:evo:start-in-first-generation:de', 'obs:evo:start-in-first-generation:ga',
                     'obs:evo:penalty-judged', 'obs:evo:penalty-discriminating']
SHARD_TIMEOUT = {'quick': 600, 'thorough': 3000}


def gen(rng, neg):
    return qpspec.random_spec(rng, n_max=4, m_max=4, allow_neg=neg, scaling=True, units=True, dv_indices=True,
                              equality=True, split_cons=True, dv_bounds='some', margin=1.0, units_p=0.5,
                              offsets=True, mag_range=(0.02, 50.0))


def _tags(voi):
    t = af.scaling_tags(voi['sc'], voi['size'])
    if voi['units'] != voi['munits']:
        t.append('units')
    return t


def _mag(voi, vm):
    """magnitude of the operands of the affine map model -> optimizer for round-off tolerances."""
    ufac, uoff = af.unit_affine(voi['munits'], voi['units'])
    s, a = af.scaler_adder(voi['sc'], voi['size'])
    return np.abs(s) * (np.abs(a) + abs(ufac) * (np.abs(vm) + abs(uoff))) + 1e-300


def _stratum(voi, neg):
    t = _tags(voi)
    return ('neg-scaler:' if (neg and 'neg' in t) else '') + '+'.join(x for x in t if x != 'neg')


def judge(case, acc):
    import openmdao.api as om
    from omv.gen import qpmodel
    spec = case['spec']
    neg = bool(case.get('neg'))
    ref = qpspec.RefModel(spec)
    st = qpspec.structure(spec)
    z = np.asarray(case['z'], float)
    p = None
    vois = ref.dvs + ref.cons + [ref.obj]
    nontrivial = any(t != ['noscale'] for t in (_tags(v) for v in vois))
    for v in vois:
        tg = _tags(v)
        if 'array' in tg:
            acc.count('obs:array-scaler')
        if 'ref' in tg:
            acc.count('obs:ref-ref0')
        if 'units' in tg:
            acc.count('obs:units')
            if af.unit_affine(v['munits'], v['units'])[1] != 0.0:
                acc.count('obs:offset-units')
        if v['d'].get('indices') is not None:
            acc.count('obs:indices')
        if v['d'].get('alias'):
            acc.count('obs:alias')
        if v['d'].get('equals') is not None:
            acc.count('obs:equality')
    bad = []

    def flag(key, what):
        bad.append((key, what))

    try:
        drv = om.ScipyOptimizeDriver(optimizer='SLSQP', disp=False)
        p, comp = qpmodel.build(spec, driver=drv)
        p.final_setup()
        qpmodel.set_z(p, spec, z)
        p.run_model()
        zz = qpmodel.get_z(p, spec)
        fp = fingerprint({'st': st, 'neg': neg})

        # ---- values ------------------------------------------------------------------------
        refv = {}
        refv.update({k: (ref.dvs[i], v) for i, (k, v) in enumerate(ref.dv_vals(zz).items())})
        refv.update({k: (ref.cons[i], v) for i, (k, v) in enumerate(ref.con_vals(zz).items())})
        refv['f'] = (ref.obj, ref.obj_vals(zz)['f'])
        for ds in (True, False):
            try:
                got = {}
                got.update(drv.get_design_var_values(driver_scaling=ds))
                got.update(drv.get_constraint_values(driver_scaling=ds))
                got.update(drv.get_objective_values(driver_scaling=ds))
            except Exception as e:   # noqa
                flag('values:raises:%s' % type(e).__name__, str(e)[:200])
                continue
            acc.count('obs:values')
            for k, (voi, tr) in refv.items():
                want = tr['scaled'] if ds else tr['declared']
                g_ = np.asarray(got.get(k, np.nan), float).ravel()
                tol = 1e-12 * (_mag(voi, tr['model']) + np.abs(want) + 1.0)
                if g_.shape != want.shape or not np.all(np.abs(g_ - want) <= tol):
                    kind = 'design_var' if voi in ref.dvs else ('constraint' if voi in ref.cons else 'objective')
                    flag('values:%s:driver_scaling-%s:%s' % (kind, 'true' if ds else 'false', _stratum(voi, neg)),
                         '%s: got %s want %s (model %s, units %s->%s, scaling %s)' % (
                             k, g_.tolist(), want.tolist(), tr['model'].tolist(), voi['munits'], voi['units'],
                             voi['sc']))

        # ---- bounds ------------------------------------------------------------------------
        for vt, lst in (('design_var', ref.dvs), ('constraint', ref.cons)):
            try:
                lo_v, hi_v, eq_v = drv._autoscaler.get_bounds_scaling(vt)
            except Exception as e:   # noqa
                flag('bounds:%s:raises:%s' % (vt, type(e).__name__), str(e)[:200])
                continue
            for voi in lst:
                acc.count('obs:bounds')
                lo, hi = ref.bounds(voi)
                lo_s, hi_s, lo_n, hi_n = af.image_bounds(lo, hi, voi['sc'])
                s, a = af.scaler_adder(voi['sc'], voi['size'])
                gl = np.asarray(lo_v[voi['key']], float).ravel()
                gh = np.asarray(hi_v[voi['key']], float).ravel()
                mag = np.abs(s) * (np.abs(a) + np.where(np.abs(lo) < af.INF_BOUND, np.abs(lo), 0.0) +
                                   np.where(np.abs(hi) < af.INF_BOUND, np.abs(hi), 0.0)) + 1.0
                tol = 1e-12 * mag
                eqc = voi['d'].get('equals') is not None
                if np.any(np.abs(lo) >= af.INF_BOUND) or np.any(np.abs(hi) >= af.INF_BOUND):
                    acc.count('obs:inf-bound-preserved')
                if eqc:
                    ge = np.asarray(eq_v[voi['key']], float).ravel()
                    want = (lo + a) * s
                    if ge.shape != want.shape or not np.all(np.abs(ge - want) <= tol):
                        flag('bounds:%s:equals:%s' % (vt, _stratum(voi, neg)),
                             '%s: equals seen by optimizer %s, image %s' % (voi['key'], ge.tolist(), want.tolist()))
                    continue
                okimg = gl.shape == lo_s.shape and np.all(np.abs(gl - lo_s) <= tol) and \
                    np.all(np.abs(gh - hi_s) <= tol)
                if not okimg:
                    naive = gl.shape == lo_n.shape and np.all(np.abs(gl - lo_n) <= tol) and \
                        np.all(np.abs(gh - hi_n) <= tol)
                    if np.any(s < 0) and naive:
                        flag('neg-scaler:bounds:%s:end-points-mapped-but-not-reordered' % vt,
                             '%s: optimizer sees lower=%s upper=%s; image of [%s, %s] under scaler %s is [%s, %s]'
                             % (voi['key'], gl.tolist(), gh.tolist(), lo.tolist(), hi.tolist(), s.tolist(),
                                lo_s.tolist(), hi_s.tolist()))
                    else:
                        flag('bounds:%s:not-the-image:%s:%s' % (
                            vt, 'array-bounds' if isinstance(voi['d'].get('lower') or voi['d'].get('upper'), list)
                            else 'scalar-bounds', _stratum(voi, neg)),
                            '%s: optimizer sees lower=%s upper=%s; image is [%s, %s]' % (
                                voi['key'], gl.tolist(), gh.tolist(), lo_s.tolist(), hi_s.tolist()))

        # ---- round trip: optimizer space -> model -> optimizer space ---------------------------
        try:
            rng = np.random.default_rng(case.get('yseed', 0))
            y = {d['key']: np.round(ref.dv_vals(zz)[d['key']]['scaled'] + rng.normal(size=d['size']), 6)
                 for d in ref.dvs}
            yvec = np.concatenate([y[d['key']] for d in ref.dvs])
            dv_vec = drv._vectors['design_var']
            dv_vec.set_data(yvec.copy(), driver_scaling=True)
            drv._set_design_vars(driver_scaling=True)
            z_got = qpmodel.get_z(p, spec)
            z_want = ref.z_from_scaled(zz, y)
            acc.count('obs:roundtrip')
            tolz = np.ones(ref.n) * 1e-300
            for d in ref.dvs:
                ufac, uoff = af.unit_affine(d['munits'], d['units'])
                s, a = af.scaler_adder(d['sc'], d['size'])
                tolz[d['pos']] = 1e-12 * (np.abs(z_want[d['pos']]) + abs(uoff) + (np.abs(y[d['key']] / s) +
                                                                                 np.abs(a)) / abs(ufac) + 1e-30)
            if not np.all(np.abs(z_got - z_want) <= tolz):
                worst = max(ref.dvs, key=lambda d: np.max(np.abs(z_got[d['pos']] - z_want[d['pos']]) /
                                                          tolz[d['pos']]))
                flag('roundtrip:model-value-after-set:%s%s' % (
                    _stratum(worst, neg), ':indices' if worst['d'].get('indices') is not None else ''),
                    'set optimizer values %s -> model z=%s, want %s' % (
                        {k: v.tolist() for k, v in y.items()}, z_got.tolist(), z_want.tolist()))
            else:
                back = drv.get_design_var_values(driver_scaling=True)
                for d in ref.dvs:
                    b_ = np.asarray(back[d['key']], float).ravel()
                    tol = 4e-12 * (_mag(d, z_want[d['pos']]) + np.abs(y[d['key']]) + 1.0)
                    if b_.shape != y[d['key']].shape or not np.all(np.abs(b_ - y[d['key']]) <= tol):
                        flag('roundtrip:get-after-set-not-identity:%s' % _stratum(d, neg),
                             '%s: set %s, got back %s' % (d['key'], y[d['key']].tolist(), b_.tolist()))
            # restore
            qpmodel.set_z(p, spec, zz)
            p.run_model()
        except Exception as e:   # noqa
            flag('roundtrip:raises:%s' % type(e).__name__, str(e)[:200])

        # ---- every other write path of a design variable ------------------------------------------
        if case.get('wp'):
            _write_paths(acc, p, drv, ref, spec, zz, case, neg, flag)
            qpmodel.set_z(p, spec, zz)
            p.run_model()
            if case['wp'].get('doe'):
                _doe_path(acc, ref, spec, zz, case, neg, flag)
            if case['wp'].get('evo'):
                _evo_path(acc, ref, spec, case, neg, flag)

        # ---- jacobians ---------------------------------------------------------------------
        Jref = ref.jac(zz, scaled=True)
        lin = [c['key'] for c in ref.cons if c['d'].get('linear')]
        nl = ['f'] + [c['key'] for c in ref.cons if not c['d'].get('linear')]
        dvn = [d['key'] for d in ref.dvs]
        sizes = {v['key']: v['size'] for v in vois}

        def cmp_blocks(getblock, ofs, label, strat_of=None):
            for of in ofs:
                for wrt in dvn:
                    want = Jref[(of, wrt)]
                    try:
                        got = np.asarray(getblock(of, wrt), float).reshape(want.shape)
                    except Exception as e:   # noqa
                        flag('jac:%s:block-missing-or-misshaped:%s' % (label, type(e).__name__),
                             '(%s,%s): %s' % (of, wrt, str(e)[:120]))
                        return
                    tol = 1e-10 * (np.max(np.abs(want)) + 1e-300)
                    if not np.all(np.abs(got - want) <= tol):
                        ov = [v for v in vois if v['key'] == of][0]
                        wv = [v for v in vois if v['key'] == wrt][0]
                        # which ingredient is missing ?  compare with the closed form lacking unit factors
                        uo = af.unit_affine(ov['munits'], ov['units'])[0]
                        uw = af.unit_affine(wv['munits'], wv['units'])[0]
                        nounits = want / uo * uw
                        how = 'declared-units-ignored' if (uo != 1.0 or uw != 1.0) and \
                            np.all(np.abs(got - nounits) <= 1e-10 * (np.max(np.abs(nounits)) + 1e-300)) else 'value'
                        if how == 'declared-units-ignored':
                            key = 'jac:%s:declared-units-ignored' % label
                        else:
                            key = '%sjac:%s:%s:of=%s:wrt=%s' % (
                                'neg-scaler:' if neg and ('neg' in _tags(ov) or 'neg' in _tags(wv)) else '',
                                label, how, '+'.join(x for x in _tags(ov) if x != 'neg'),
                                '+'.join(x for x in _tags(wv) if x != 'neg'))
                        flag(key, 'd%s/d%s: got %s want %s' % (of, wrt, got.tolist(), want.tolist()))
                        return

        def reset():
            drv._total_jac = None
            drv._total_jac_linear = None

        for fmt in ('flat_dict', 'dict', 'array'):
            try:
                reset()
                J = drv._compute_totals(of=nl, wrt=dvn, return_format=fmt)
                acc.count('obs:jac:_compute_totals:' + fmt)
                if fmt == 'flat_dict':
                    cmp_blocks(lambda o, w: J[o, w], nl, '_compute_totals-flat_dict')
                elif fmt == 'dict':
                    cmp_blocks(lambda o, w: J[o][w], nl, '_compute_totals-dict')
                else:
                    ro = np.cumsum([0] + [sizes[o] for o in nl])
                    co = np.cumsum([0] + [sizes[w] for w in dvn])
                    J = np.asarray(J)
                    cmp_blocks(lambda o, w: J[ro[nl.index(o)]:ro[nl.index(o) + 1],
                                              co[dvn.index(w)]:co[dvn.index(w) + 1]], nl, '_compute_totals-array')
            except Exception as e:   # noqa
                flag('jac:_compute_totals-%s:raises:%s' % (fmt, type(e).__name__), str(e)[:200])
        if lin:
            try:
                reset()
                J = np.asarray(drv._compute_totals(of=lin, wrt=dvn, return_format='array'))
                acc.count('obs:jac:linear-constraints')
                ro = np.cumsum([0] + [sizes[o] for o in lin])
                co = np.cumsum([0] + [sizes[w] for w in dvn])
                cmp_blocks(lambda o, w: J[ro[lin.index(o)]:ro[lin.index(o) + 1],
                                          co[dvn.index(w)]:co[dvn.index(w) + 1]], lin,
                           '_compute_totals-linear-constraints')
            except Exception as e:   # noqa
                flag('jac:_compute_totals-linear-constraints:raises:%s' % type(e).__name__, str(e)[:200])
        try:
            reset()
            allof = ['f'] + [c['key'] for c in ref.cons]
            J = p.compute_totals(of=allof, wrt=dvn, driver_scaling=True)
            acc.count('obs:jac:problem.compute_totals')
            cmp_blocks(lambda o, w: J[o, w], allof, 'problem.compute_totals')
        except Exception as e:   # noqa
            flag('jac:problem.compute_totals:raises:%s' % type(e).__name__, str(e)[:200])
        reset()

        # ---- Lagrange multipliers at the exact optimum -----------------------------------------
        if case.get('lagrange', True) and not neg:
            _lagrange(acc, p, drv, ref, spec, flag)

        if bad:
            seen = set()
            first = True
            for key, what in bad:
                if key in seen:
                    continue
                seen.add(key)
                acc.viol(key, what, case, fp=fp, new_case=first)
                first = False
        else:
            acc.ok(fp, nontrivial=nontrivial, sample=case if acc.judged % 151 == 0 else None)
    finally:
        if p is not None:
            try:
                p.cleanup()
            except Exception:
                pass


# ----------------------------------------------------------------------------------------------
# write paths of design variables other than the optimizer vector
# ----------------------------------------------------------------------------------------------
def _val_form(v, form):
    v = np.asarray(v, float).ravel()
    if form == 'float' and v.size == 1:
        return float(v[0])
    if form == 'list':
        return v.tolist()
    return v.copy()


def _expect_after_write(ref, z_prev, written):
    """Closed form of the model after design variables were written.

    written = {key: (values, units of the values or None = the declared units of the design variable)};
    entries of z that are not addressed (other inputs, elements outside `indices`) keep their value.
    Returns z, its round-off tolerance, and {key: values in declared units}."""
    z = np.array(z_prev, float)
    tolz = np.full(ref.n, 1e-300)
    decl = {}
    for d in ref.dvs:
        if d['key'] not in written:
            continue
        v, u = written[d['key']]
        v = np.asarray(v, float).ravel() * np.ones(d['size'])
        src = d['units'] if u is None else u
        fac, off = af.unit_affine(src, d['munits'])
        z[d['pos']] = (v + off) * fac
        tolz[d['pos']] = 1e-12 * (np.abs(z[d['pos']]) + abs(fac) * (np.abs(v) + abs(off)) + 1e-30)
        decl[d['key']] = v if u is None else af.to_units(z[d['pos']], d['munits'], d['units'])
    return z, tolz, decl


def _judge_written(acc, flag, path, p, drv, ref, spec, z_prev, written, neg):
    """model state and both read paths after a write, against the closed form.
    -> the model state (the observed one after a disagreement, so that one wrong write is reported once)."""
    from omv.gen import qpmodel
    z_want, tolz, decl = _expect_after_write(ref, z_prev, written)
    z_got = qpmodel.get_z(p, spec)
    acc.count('obs:write:' + path.split(':')[0])
    touched = [d for d in ref.dvs if d['key'] in written]
    if any(written[d['key']][1] is None and d['units'] != d['munits'] for d in touched):
        # value handed over without units= for a design variable whose declared units differ from the model's
        acc.count('obs:write:declared-units-implied:' + path.split(':')[0])
        if any(written[d['key']][1] is None and af.unit_affine(d['units'], d['munits'])[1] != 0.0 for d in touched):
            acc.count('obs:write:declared-offset-units-implied')
    if z_got.shape != z_want.shape or not np.all(np.abs(z_got - z_want) <= tolz):
        def err(d):
            return float(np.max(np.abs(z_got[d['pos']] - z_want[d['pos']]) / tolz[d['pos']]))
        worst = max(touched, key=err) if touched else None
        if worst is None or err(worst) <= 1.0:
            flag('write:%s:model-value:entries-not-addressed-changed' % path,
                 'wrote %s; model z=%s, want %s' % ({k: np.asarray(v[0]).tolist() for k, v in written.items()},
                                                    z_got.tolist(), z_want.tolist()))
            return z_got
        v, u = written[worst['key']]
        v = np.asarray(v, float).ravel() * np.ones(worst['size'])
        src = worst['units'] if u is None else u
        g_ = z_got[worst['pos']]
        tl = 1e3 * tolz[worst['pos']]
        inv = af.to_units(v, worst['munits'], src)
        idx = ':indices' if worst['d'].get('indices') is not None else ''
        if src != worst['munits'] and np.all(np.abs(g_ - inv) <= tl + 1e-9 * np.abs(inv)):
            key = 'write:%s:model-value:inverse-unit-map%s%s' % (
                path, ':offset-units' if af.unit_affine(src, worst['munits'])[1] != 0.0 else '', idx)
        elif src != worst['munits'] and np.all(np.abs(g_ - v) <= tl + 1e-12 * np.abs(v)):
            key = 'write:%s:model-value:units-ignored%s' % (path, idx)
        else:
            key = 'write:%s:model-value:value%s%s' % (path, ':units' if src != worst['munits'] else '', idx)
        flag(key, '%s: wrote %s [%s]; model holds %s [%s], want %s' % (
            worst['key'], v.tolist(), src, g_.tolist(), worst['munits'], z_want[worst['pos']].tolist()))
        return z_got
    for ds in (False, True):
        try:
            back = drv.get_design_var_values(driver_scaling=ds)
        except Exception as e:   # noqa
            flag('write:%s:get-after-set:raises:%s' % (path, type(e).__name__), str(e)[:200])
            continue
        for d in touched:
            want = af.scale(decl[d['key']], d['sc']) if ds else decl[d['key']]
            b_ = np.asarray(back.get(d['key'], np.nan), float).ravel()
            tol = 4e-12 * (_mag(d, z_want[d['pos']]) + np.abs(want) + 1.0)
            if b_.shape != want.shape or not np.all(np.abs(b_ - want) <= tol):
                flag('write:%s:get-%s-after-set-not-the-value-set:%s' % (
                    path, 'scaled' if ds else 'unscaled', _stratum(d, neg)),
                    '%s: wrote %s [%s], model %s, get_design_var_values(driver_scaling=%s) gives %s, want %s' % (
                        d['key'], np.asarray(written[d['key']][0]).tolist(), written[d['key']][1] or d['units'],
                        z_want[d['pos']].tolist(), ds, b_.tolist(), want.tolist()))
    return z_want


def _family(u):
    for fam in af.FAMILIES.values():
        if u in fam:
            return fam
    return None


def _write_paths(acc, p, drv, ref, spec, zz, case, neg, flag):
    """Driver._set_design_var (the entry DOE/GA/DE/pymoo use) and the public Driver.set_design_var:
    without units (value in the declared units), with units= the declared units, with units= another unit."""
    from omv.gen import qpmodel
    rng = np.random.default_rng(case.get('yseed', 0) + 1)
    cur = ref.dv_vals(zz)
    for variant in ('no-units', 'units=declared', 'units=other', 'public'):
        written = {}
        calls = []
        for d in ref.dvs:
            form = ('array', 'list', 'float')[rng.integers(3)]
            set_remote = bool(rng.integers(2))
            u = None
            if variant == 'units=declared' and d['units'] is not None:
                u = d['units']
            elif variant == 'units=other' and d['munits'] is not None:
                fam = _family(d['munits'])
                u = fam[rng.integers(len(fam))]
            if u is None or u == d['units']:
                v = np.round(cur[d['key']]['declared'] + rng.normal(size=d['size']), 6)
            else:
                v = np.round(af.to_units(zz[d['pos']] + rng.normal(size=d['size']), d['munits'], u), 6)
            written[d['key']] = (v, u)
            calls.append((d['key'], _val_form(v, form), set_remote, u))
        if variant in ('units=declared', 'units=other') and all(c[3] is None for c in calls):
            continue
        z_prev = qpmodel.get_z(p, spec)
        path = '_set_design_var' if variant != 'public' else 'set_design_var'
        try:
            for name, val, set_remote, u in calls:
                if variant == 'public':
                    drv.set_design_var(name, val)
                elif u is None:
                    drv._set_design_var(name, val, set_remote=set_remote)
                else:
                    drv._set_design_var(name, val, set_remote=set_remote, units=u)
        except RuntimeError as e:
            if variant == 'public' and 'Deprecation message expired' in str(e):
                # the public method is past the expiry of its deprecation: it refuses every call
                acc.count('guard:write:public-set_design_var-deprecation-expired')
                continue
            flag('write:%s:raises:RuntimeError' % path, str(e)[:200])
            continue
        except Exception as e:   # noqa
            flag('write:%s:raises:%s' % (path, type(e).__name__), str(e)[:200])
            continue
        if variant == 'units=other':
            acc.count('obs:write:explicit-other-units')
        _judge_written(acc, flag, path + ('' if variant in ('no-units', 'public') else ':' + variant),
                       p, drv, ref, spec, z_prev, written, neg)


def _hook_evals(drv, on_eval):
    orig = drv._run_solve_nonlinear

    def wrapped(*a, **k):
        on_eval()
        return orig(*a, **k)
    drv._run_solve_nonlinear = wrapped


def _doe_path(acc, ref, spec, zz, case, neg, flag):
    """DOEDriver + ListGenerator: the listed values are design-variable values in declared units."""
    import openmdao.api as om
    from omv.gen import qpmodel
    rng = np.random.default_rng(case.get('yseed', 0) + 2)
    cur = ref.dv_vals(zz)
    doe = []
    for k in range(2):
        dvs = list(ref.dvs)
        if k == 1 and len(dvs) > 1 and rng.random() < 0.5:
            dvs = [dvs[rng.integers(len(dvs))]]          # a case may name a subset of the design variables
        doe.append({d['key']: np.round(cur[d['key']]['declared'] + rng.normal(size=d['size']), 6) for d in dvs})
    forms = {d['key']: ('array', 'list', 'float')[rng.integers(3)] for d in ref.dvs}
    p = None
    try:
        drv = om.DOEDriver(om.ListGenerator([[(k, _val_form(v, forms[k])) for k, v in c.items()] for c in doe]))
        p, comp = qpmodel.build(spec, driver=drv)
        qpmodel.set_z(p, spec, zz)
        p.final_setup()
        state = {'z': np.array(zz, float), 'n': 0}

        def on_eval():
            if state['n'] < len(doe):
                written = {k: (v, None) for k, v in doe[state['n']].items()}
                state['z'] = _judge_written(acc, flag, 'doe-list', p, drv, ref, spec, state['z'], written, neg)
            state['n'] += 1
        _hook_evals(drv, on_eval)
        p.run_driver()
        if state['n'] != len(doe):
            flag('write:doe-list:number-of-evaluations', '%d listed cases, %d model evaluations' % (
                len(doe), state['n']))
    except Exception as e:   # noqa
        flag('write:doe-list:raises:%s' % type(e).__name__, str(e)[:200])
    finally:
        if p is not None:
            try:
                p.cleanup()
            except Exception:
                pass


def _evo_spec(spec, ref, zz, rng):
    """the spec with what SimpleGADriver/DifferentialEvolutionDriver need: finite two-sided bounds on every
    design variable (around the start), one-sided or equality constraints, no linear flag."""
    import copy
    sp = copy.deepcopy(spec)
    sp['x0'] = np.asarray(zz, float).tolist()
    cur = ref.dv_vals(np.asarray(zz, float))
    for dd, d in zip(sp['dvs'], ref.dvs):
        vd = cur[d['key']]['declared']
        w = abs(af.unit_affine(d['munits'], d['units'])[0])
        if rng.random() < 0.5:
            dd['lower'] = float(vd.min() - w * rng.uniform(0.5, 1.5))
            dd['upper'] = float(vd.max() + w * rng.uniform(0.5, 1.5))
        else:
            dd['lower'] = (vd - w * rng.uniform(0.5, 1.5, size=vd.size)).tolist()
            dd['upper'] = (vd + w * rng.uniform(0.5, 1.5, size=vd.size)).tolist()
    for cd in sp['cons']:
        cd['linear'] = False
        if cd.get('equals') is None and cd.get('lower') is not None and cd.get('upper') is not None:
            cd['upper' if rng.random() < 0.5 else 'lower'] = None
    return sp


def _evo_path(acc, ref0, spec0, case, neg, flag):
    """SimpleGADriver / DifferentialEvolutionDriver, one generation of a minimal population.

    Every point they write through Driver._set_design_var is judged like any other write; the start (the
    model's design when run_driver is called) must be a member of the first generation (exactly for DE, to the
    resolution of the encoding for the GA) - whatever space the algorithm works in, the point it is handed as
    the start must be written back as the start; the penalized objective of one of its own points must be the
    (driver-scaled) objective plus penalty * sum(violation ** exponent) with value and bound of each
    constraint in one and the same space (both driver-scaled or both in declared units)."""
    import openmdao.api as om
    from omv.gen import qpmodel
    kind = case['wp']['evo']
    rng = np.random.default_rng(case.get('yseed', 0) + 3)
    zz = np.asarray(case['z'], float)
    spec = _evo_spec(spec0, ref0, zz, rng)
    ref = qpspec.RefModel(spec)
    bits = int(rng.integers(10, 15))
    p = None
    try:
        if kind == 'de':
            drv = om.DifferentialEvolutionDriver(max_gen=0, pop_size=4)
        else:
            drv = om.SimpleGADriver(max_gen=0, pop_size=4, bits={d['key']: bits for d in ref.dvs},
                                    gray=bool(rng.integers(2)))
        drv._randomstate = int(rng.integers(1 << 30))
        p, comp = qpmodel.build(spec, driver=drv)
        p.final_setup()
        zz = qpmodel.get_z(p, spec)
        last = {}
        state = {'z': np.array(zz, float), 'pts': []}
        orig_set = drv._set_design_var

        def set_wrapped(name, value, set_remote=True, units=None):
            last[name] = (np.array(value, float).ravel().copy(), units)
            return orig_set(name, value, set_remote=set_remote, units=units)
        drv._set_design_var = set_wrapped

        def on_eval():
            if last:
                state['z'] = _judge_written(acc, flag, kind, p, drv, ref, spec, state['z'], dict(last), neg)
                if len(last) == len(ref.dvs) and all(u is None for _, u in last.values()):
                    state['pts'].append(np.concatenate([last[d['key']][0] for d in ref.dvs]))
        _hook_evals(drv, on_eval)
        p.run_driver()
    except Exception as e:   # noqa
        flag('evo:run_driver-raises:%s:%s' % (type(e).__name__, kind), str(e)[:200])
        if p is not None:
            p.cleanup()
        return
    try:
        pts = state['pts']
        if not pts:
            acc.count('guard:evo:no-point-observed')
            return
        # ---- the start is a member of the first generation
        cur = ref.dv_vals(zz)
        d0 = np.concatenate([cur[d['key']]['declared'] for d in ref.dvs])
        s0 = np.concatenate([cur[d['key']]['scaled'] for d in ref.dvs])
        lo = np.concatenate([ref.bounds(d)[0] for d in ref.dvs])
        hi = np.concatenate([ref.bounds(d)[1] for d in ref.dvs])
        mag = np.concatenate([_mag(d, zz[d['pos']]) / np.abs(af.scaler_adder(d['sc'], d['size'])[0])
                              for d in ref.dvs])
        if kind == 'de':
            tol = 4e-12 * (mag + np.abs(d0) + 1.0)
        else:
            tol = 0.5 * (hi - lo) / (2.0 ** bits - 1.0) * (1.0 + 1e-9) + 4e-12 * (mag + np.abs(d0) + 1.0)
        acc.count('obs:evo:start-in-first-generation:' + kind)
        if not any(np.all(np.abs(x - d0) <= tol) for x in pts):
            nontriv = [d for d in ref.dvs if af.scaling_tags(d['sc'], d['size']) != ['noscale']]
            s0c = np.minimum(np.maximum(s0, lo), hi) if kind == 'ga' else s0
            if nontriv and any(np.all(np.abs(x - s0c) <= tol + 1e-9 * np.abs(s0c)) for x in pts):
                key = 'evo:start-handed-over-driver-scaled-but-written-back-unscaled:%s' % kind
            else:
                key = 'evo:start-not-in-first-generation:%s' % kind
            flag(key, 'start (declared units) %s, driver-scaled %s; points written %s' % (
                d0.tolist(), s0.tolist(), [x.tolist() for x in pts[:6]]))
        # ---- penalized objective of one of the driver's own points
        if not neg and hasattr(drv, 'objective_callback'):
            x = pts[int(rng.integers(len(pts)))]
            last.clear()
            try:
                fun = float(np.asarray(drv.objective_callback(np.array(x), 0)[0]).ravel()[0])
            except Exception as e:   # noqa
                flag('evo:objective_callback-raises:%s:%s' % (type(e).__name__, kind), str(e)[:200])
                return
            z = state['z']
            pen = float(drv.options['penalty_parameter'])
            ex = float(drv.options['penalty_exponent'])
            fo = ref.obj_vals(z)['f']
            f_s = float(fo['scaled'][0])
            s_f, a_f = af.scaler_adder(ref.obj['sc'], 1)
            uf, uo = af.unit_affine(ref.obj['munits'], ref.obj['units'])
            magf = abs(s_f[0]) * (abs(a_f[0]) + abs(uf) * (0.5 * np.abs(z) @ np.abs(ref.Q) @ np.abs(z) +
                                                          np.abs(ref.c) @ np.abs(z) + abs(uo)))

            def viol(val, lo_, hi_, eq):
                if eq:
                    return np.abs(val - lo_)
                out = np.zeros(val.size)
                fl = np.abs(lo_) < af.INF_BOUND
                fh = np.abs(hi_) < af.INF_BOUND
                out[fl] = np.maximum(out[fl], (lo_ - val)[fl])
                out[fh] = np.maximum(out[fh], (val - hi_)[fh])
                return out
            tot = {'scaled': 0.0, 'declared': 0.0, 'mixed': 0.0}
            magc = 0.0
            cv = ref.con_vals(z)
            for c in ref.cons:
                lo_, hi_ = ref.bounds(c)
                eq = c['d'].get('equals') is not None
                lo_s, hi_s, _, _ = af.image_bounds(lo_, hi_, c['sc'])
                t = cv[c['key']]
                tot['scaled'] += float(np.sum(viol(t['scaled'], lo_s, hi_s, eq) ** ex))
                tot['declared'] += float(np.sum(viol(t['declared'], lo_, hi_, eq) ** ex))
                tot['mixed'] += float(np.sum(viol(t['scaled'], lo_, hi_, eq) ** ex))
                fin = lambda b: np.where(np.abs(b) < af.INF_BOUND, np.abs(b), 0.0)   # noqa
                sc_, _ = af.scaler_adder(c['sc'], c['size'])
                m_ = _mag(c, t['model']) + np.abs(sc_) * (fin(lo_) + fin(hi_))
                magc += float(np.sum(np.maximum(m_, m_ / np.abs(sc_)) + fin(lo_) + fin(hi_)))
            tol = 1e-10 * (magf + abs(f_s) + pen * max(1.0, ex) * max(magc, magc ** ex) + 1e-300)
            cand = {k: f_s + pen * v for k, v in tot.items()}
            acc.count('obs:evo:penalty-judged')
            if abs(cand['mixed'] - cand['scaled']) > 1e3 * tol and abs(cand['mixed'] - cand['declared']) > 1e3 * tol:
                acc.count('obs:evo:penalty-discriminating')
            if abs(fun - cand['scaled']) > tol and abs(fun - cand['declared']) > tol:
                if abs(fun - cand['mixed']) <= tol:
                    key = 'evo:penalty-compares-driver-scaled-constraint-value-with-unscaled-bound:%s' % kind
                else:
                    key = 'evo:penalty-value:%s' % kind
                flag(key, 'point %s: penalized objective %r; objective (scaled) %r + %g*sum(viol**%g): %r with '
                     'scaled values and scaled bounds, %r both in declared units, %r scaled values against '
                     'declared bounds' % (x.tolist(), fun, f_s, pen, ex, cand['scaled'], cand['declared'],
                                          cand['mixed']))
    finally:
        try:
            p.cleanup()
        except Exception:
            pass


def _lagrange(acc, p, drv, ref, spec, flag):
    from omv.gen import qpmodel
    ex = ref.exact()
    if ex is None:
        acc.count('guard:lagrange:reference-infeasible')
        return
    q = ex['qp']
    if max(q['kkt']) > 1e-8 or not q['licq'] or not q['strict']:
        acc.count('guard:lagrange:degenerate-optimum')
        return
    if not np.any(q['active'] != 0):
        acc.count('guard:lagrange:no-active-constraint')
        return
    zs = ex['z']
    # scaled gaps of inactive bounds and scaled conditioning of the active set
    rows = []
    for voi, kind, vals in [(c, 'con', ref.con_vals(zs)[c['key']]) for c in ref.cons] + \
                           [(d, 'dv', ref.dv_vals(zs)[d['key']]) for d in ref.dvs]:
        lo, hi = ref.bounds(voi)
        lo_s, hi_s, _, _ = af.image_bounds(lo, hi, voi['sc'])
        act = ex['active'][(kind, voi['key'])]
        vs = vals['scaled']
        for k in range(voi['size']):
            for b in (lo_s[k], hi_s[k]):
                if abs(b) >= af.INF_BOUND:
                    continue
                gap = abs(vs[k] - b)
                if act[k] == 0 and gap < 1e-4 * (1 + abs(b)):
                    acc.count('guard:lagrange:inactive-bound-too-close-in-scaled-space')
                    return
                if act[k] != 0 and voi['d'].get('equals') is None and gap > 1e-8 * (1 + abs(b)) and \
                        ((act[k] == 1 and b == hi_s[k]) or (act[k] == -1 and b == lo_s[k])):
                    acc.count('guard:lagrange:active-bound-not-tight-in-scaled-space')
                    return
            if act[k] != 0:
                if kind == 'con':
                    J = ref.jac(zs, scaled=True)
                    rows.append(np.concatenate([J[(voi['key'], d['key'])][k] for d in ref.dvs]))
                else:
                    e = np.zeros(sum(d['size'] for d in ref.dvs))
                    off = 0
                    for d in ref.dvs:
                        if d is voi:
                            e[off + k] = 1.0
                        off += d['size']
                    rows.append(e)
    sv = np.linalg.svd(np.asarray(rows), compute_uv=False)
    cond = float(sv[0] / sv[-1]) if sv[-1] > 0 else np.inf
    if cond > 1e6:
        acc.count('guard:lagrange:ill-conditioned-active-set')
        return
    qpmodel.set_z(p, spec, zs)
    p.run_model()
    arr_scaler = any('array' in af.scaling_tags(v['sc'], v['size']) and
                     np.size(af.scaling_kwargs(v['sc']).get('scaler', af.scaling_kwargs(v['sc']).get('ref', 1.0))) > 1
                     for v in ref.dvs + ref.cons)
    for sparse in (False, True):
        try:
            adv, acon = drv.compute_lagrange_multipliers(driver_scaling=False, use_sparse_solve=sparse)
        except Exception as e:   # noqa
            import traceback
            tb = traceback.extract_tb(e.__traceback__)
            where = [fr.name for fr in tb if '/openmdao/' in fr.filename][-1:] or ['?']
            flag('lagrange:raises:%s@%s:%s' % (type(e).__name__, where[0],
                                                'array-scaler' if arr_scaler else 'scalar-scalers'),
                 '%s: %s' % (type(e).__name__, str(e)[:200]))
            return
        acc.count('obs:lagrange-compared')
        lam_max = max([np.max(np.abs(v)) for v in ex['mult'].values()] + [0.0])
        uf = af.unit_affine(ref.obj['munits'], ref.obj['units'])[0]
        results = {}
        for conv in ('model-units', 'declared-units'):
            # the exact multipliers are d f/d bound with f and the bound in declared units; in model units
            # they are multiplied by ufac(constraint)/ufac(objective)
            mism = []
            lmax = 0.0
            for kind, lst, got in (('con', ref.cons, acon), ('dv', ref.dvs, adv)):
                for voi in lst:
                    uv = af.unit_affine(voi['munits'], voi['units'])[0]
                    want = ex['mult'][(kind, voi['key'])] * ((uv / uf) if conv == 'model-units' else 1.0)
                    lmax = max(lmax, float(np.max(np.abs(want))))
                    act = ex['active'][(kind, voi['key'])]
                    if voi['key'] not in got:
                        if np.any(act != 0):
                            mism.append(('lagrange:active-%s-not-reported' % (
                                'constraint' if kind == 'con' else 'design-var'),
                                '%s active %s but absent from the result' % (voi['key'], act.tolist()), None))
                        continue
                    g_ = np.asarray(got[voi['key']]['multipliers'], float).ravel()
                    mism.append((kind, voi, g_, want))
            tol = (1e-7 if not sparse else 1e-4) * cond * (1.0 + lmax)
            out = []
            for m in mism:
                if m[2] is None:
                    out.append((m[0], m[1]))
                    continue
                kind, voi, g_, want = m
                if g_.shape != want.shape or not np.all(np.abs(g_ - want) <= tol):
                    t = '+'.join(x for x in _tags(voi) if x != 'units')
                    ot = '+'.join(x for x in _tags(ref.obj) if x != 'units')
                    out.append(('lagrange:%s-multiplier-depends-on-scaling:%s:obj=%s:%s' % (
                        'constraint' if kind == 'con' else 'design-var-bound', t, ot,
                        'sparse' if sparse else 'dense'),
                        '%s: multipliers %s, exact (%s) %s, tol %.2g' % (
                            voi['key'], g_.tolist(), conv, want.tolist(), tol)))
            results[conv] = out
        if not results['model-units']:
            acc.count('obs:lagrange-in-model-units')
        elif not results['declared-units']:
            acc.count('obs:lagrange-in-declared-units')
        else:
            for key, what in results['model-units']:
                flag(key, what)


# ----------------------------------------------------------------------------------------------
def shards(tier, seed):
    nsh = 16 if tier == 'quick' else 32
    n = 30 if tier == 'quick' else 260
    return [{'seed': seed * 100003 + 32452843 * k + 17, 'n': n} for k in range(nsh)]


def run_shard(shard, acc):
    rng = np.random.default_rng(shard['seed'])
    for i in range(shard['n']):
        neg = (i % 6 == 5)
        spec = gen(rng, neg)
        n = len(spec['x0'])
        z = np.round(np.asarray(spec['x0']) + rng.normal(size=n), 9)
        # write paths: direct Driver._set_design_var calls always; a DOEDriver run on every other case; one
        # generation of DifferentialEvolutionDriver / SimpleGADriver on every fourth case each
        wp = {'doe': i % 2 == 0, 'evo': {1: 'de', 3: 'ga'}.get(i % 4)}
        judge({'spec': spec, 'z': z.tolist(), 'neg': neg, 'yseed': int(rng.integers(1 << 30)), 'wp': wp}, acc)


def run_case(case, acc):
    judge(case, acc)
