"""C17 - Recorded cases are faithful, filtered and ordered.

Monitor: offline check of the case reader against an event log captured at record time
(omv.kit.recmon.RecMonitor wraps SqliteRecorder.record_iteration_* / record_derivatives_driver and
the iteration stack).  For every recorder file of a generated scenario the real `CaseReader` is
asked list_cases / list_sources / get_case / get_cases and every answer is compared with the log:

 (i)   variable selection: a conservative model of the documented include/exclude/record_* semantics
       decides "must be present" / "must be absent" per variable (everything else is grey = not judged)
 (ii)  stored value == live snapshot of the model at the instant of the record call (exact)
 (iii) list_cases() order == event order
 (iv)  list_cases(source, recurse, flat) == the source's cases / their descendants, where "descendant"
       is decided by identity of the enclosing execution frames (unique serials), not by coordinate text
 (v)   get_case(index) / get_case(name) return the data of that event (counter, source, values)
"""
import json
import os
import random
from bisect import bisect_right
from fnmatch import fnmatchcase

import numpy as np

from omv.core import fingerprint

PROPERTY = 'C17'
LEVEL = 'exploration'
TECHNIQUE = 'runtime monitoring: record-time event log vs. offline CaseReader answers'
RULE = ('scenario = generated model (2-5 harness comps/ExecComps in root/g/g.h, connect+src_indices+units, '
        'auto-IVC/IVC, discrete vars, optional NLBGS/Newton(+linesearch) cycle) x driver {run_model, Driver, '
        'DOEDriver, SLSQP} x 1-2 SqliteRecorders attached to random requesters (problem/driver/systems/'
        'solvers/linesearch) x random recording_options (record_* flags, includes/excludes patterns) x run '
        'sequence of 1-3 run_model/run_driver/record() (with and without case_prefix); distinct = distinct '
        'structural summary; non-trivial = at least one case was recorded and read back')
LEVEL_TEXT = ('every recorder file of every scenario is read back completely and compared event by event; '
              'no exhaustiveness claim over models/options')
ASSUMPTIONS = [
    'root nonlinear vectors read at the record call are "the values in the model"; for system/solver cases of '
    'models with output scaling (recorded while the vectors are scaled) the physical values observed inside the '
    'harness components\' compute() are the reference, to 8 ulp (y/ref*ref round trips)',
    'include/exclude semantics: only variables for which every plausible name (absolute, relative, promoted) '
    'agrees on matching are judged; outputs that are sources of recorded inputs are not judged absent',
    'driver derivatives are compared with the derivative record of the same coordinate (the reader\'s '
    'documented association) written by the same run_driver call; a case that displays exactly the record another '
    'run stored under the same repeated coordinate is reported under repeated-run:coordinate-collision',
    'the iteration coordinate format rank0:name|count|... is taken as documented',
    'a Problem case name the user passes twice to Problem.record() does not identify a case (documented: "Name used '
    'to identify this Problem case"); look-ups of such cases by name/index and get_cases("problem") are not judged, '
    'their presence and order in list_cases() is',
    'a hierarchical coordinate that repeats (successive runs without case_prefix reset the iteration counters) is '
    'ambiguous as a name: get_case(name) may return any of the cases it denotes; every other query is judged by the '
    'unique counter and reported under the mechanism prefix repeated-run:coordinate-collision only when the answer '
    'is of the shape that mechanism produces (same name and source / only names of true descendants)',
]
MIN_JUDGED = {'quick': 40, 'thorough': 800}
REQUIRED_COUNTERS = ['obs:events', 'obs:cases_read', 'obs:values_compared', 'obs:selection_judged_present',
                     'obs:selection_judged_absent', 'obs:list_cases_source', 'obs:get_case_index',
                     'obs:get_case_name', 'obs:kind:driver', 'obs:kind:system', 'obs:kind:solver',
                     'obs:kind:problem', 'obs:descendant_queries_with_children']
SHARD_TIMEOUT = {'quick': 900, 'thorough': 3000}

COLL = 'repeated-run:coordinate-collision:'


# ----------------------------------------------------------------------------------------------
# selection oracle
# ----------------------------------------------------------------------------------------------
def _inc_exc(cands, incl, excl):
    ex_all = any(all(fnmatchcase(c, p) for c in cands) for p in excl)
    ex_any = any(fnmatchcase(c, p) for c in cands for p in excl)
    in_all = any(all(fnmatchcase(c, p) for c in cands) for p in incl)
    in_any = any(fnmatchcase(c, p) for c in cands for p in incl)
    if ex_all:
        return 'A', 'excluded'
    if not in_any:
        return 'A', 'not-included'
    if in_all and not ex_any:
        return 'P', 'included'
    return None, 'grey'


DEFAULTS = {
    'problem': {'record_desvars': True, 'record_objectives': True, 'record_constraints': True,
                'record_responses': False, 'record_inputs': False, 'record_outputs': True,
                'record_residuals': False, 'includes': ['*'], 'excludes': []},
    'driver': {'record_desvars': True, 'record_objectives': True, 'record_constraints': True,
               'record_responses': False, 'record_inputs': True, 'record_outputs': True,
               'record_residuals': False, 'includes': [], 'excludes': []},
    'system': {'record_inputs': True, 'record_outputs': True, 'record_residuals': True, 'includes': ['*'],
               'excludes': []},
    'solver': {'record_inputs': True, 'record_outputs': True, 'record_solver_residuals': False,
               'includes': ['*'], 'excludes': []},
}


def selection(kind, path, opts, V, voi):
    """{'input'|'output'|'residual': {abs: (verdict, reason)}}; verdict 'P' / 'A' / None (grey)."""
    okind = 'solver' if kind == 'linesearch' else kind
    o = dict(DEFAULTS[okind])
    o.update(opts or {})
    incl, excl = o['includes'], o['excludes']
    res = {'input': {}, 'output': {}, 'residual': {}}
    pre = path + '.' if path else ''
    targets = {}
    for a, m in V.items():
        if m['io'] == 'input' and m.get('src_abs'):
            targets.setdefault(m['src_abs'], []).append(a)
    for a, m in V.items():
        if path and not a.startswith(pre):
            continue
        if okind in ('problem', 'driver'):
            cands = {a, m['prom']['']} | set(m.get('alt', []))
        else:
            cands = {a, a[len(pre):], m['prom'][path]} | set(m.get('alt', []))
        if m['io'] == 'input':
            if okind == 'solver' and m['discrete']:
                continue
            if not o['record_inputs']:
                res['input'][a] = ('A', 'flag-off')
            else:
                res['input'][a] = _inc_exc(cands, incl, excl)
            continue
        # outputs
        if okind == 'solver' and m['discrete']:
            continue
        if okind in ('problem', 'driver'):
            kept = None
            if o['record_desvars'] and a in voi['desvar']:
                kept = 'record_desvars'
            elif (o['record_objectives'] or o['record_responses']) and a in voi['objective']:
                kept = 'record_objectives' if o['record_objectives'] else 'record_responses'
            elif (o['record_constraints'] or o['record_responses']) and a in voi['constraint']:
                kept = 'record_constraints' if o['record_constraints'] else 'record_responses'
            if kept:
                res['output'][a] = ('P', 'kept-by-' + kept if o['record_outputs'] else 'record_outputs-off:voi-flag-ignored')
            else:
                if not o['record_outputs']:
                    v = ('A', 'flag-off')
                else:
                    v = _inc_exc(cands, incl, excl)
                if v[0] == 'A' and o['record_inputs'] and targets.get(a):
                    v = (None, 'grey-source-of-recorded-input')
                res['output'][a] = v
            rflag = o['record_residuals']
        else:
            if not o['record_outputs']:
                res['output'][a] = ('A', 'flag-off')
            else:
                res['output'][a] = _inc_exc(cands, incl, excl)
            rflag = o['record_residuals'] if okind == 'system' else o['record_solver_residuals']
        if not m['discrete']:
            if not rflag:
                res['residual'][a] = ('A', 'flag-off')
            else:
                res['residual'][a] = _inc_exc(cands, incl, excl)
    return res


# ----------------------------------------------------------------------------------------------
# scenario execution
# ----------------------------------------------------------------------------------------------
def make_spec(seed, tier):
    from omv.gen import recmodels as G
    rng = random.Random(seed)
    flavor = rng.random()
    kw = {'allow_special': flavor < 0.25, 'allow_scaled': 0.25 <= flavor < 0.4}
    if flavor > 0.85:
        kw['ndoe'] = 12              # two-digit iteration counts
    spec = G.gen_spec(rng, **kw)
    if spec['model']['special']:
        # NaN/inf are legal values to record, but OpenMDAO rightly refuses to factorise a NaN Jacobian
        cyc = spec['model']['cycle']
        if cyc and cyc['solver'] != 'nlbgs':
            spec['model']['special'] = None
        else:
            for o in spec['recorders']['options'].values():
                if 'record_derivatives' in o:
                    o['record_derivatives'] = False
    spec['preload'] = rng.random() < 0.3
    spec['seed'] = seed
    return spec


def execute(spec):
    """Run the scenario under the monitor.  -> (events, built, error)"""
    from omv.gen import recmodels as G
    from omv.kit.recmon import RecMonitor
    mon = RecMonitor().install()
    built = None
    marks = []
    try:
        built = G.build(spec)
        mon.built = built
        G.run_sequence(built, on_step=lambda i, op: marks.append(len(mon.events)))
        built['prob'].cleanup()
        return mon.events, built, None
    except Exception as e:   # noqa
        import traceback
        return mon.events, built, (e, traceback.format_exc()[-1500:])
    finally:
        mon.uninstall()
        # e['step'] = index of the run_model/run_driver/record call of the sequence that produced the event
        for e in mon.events:
            e['step'] = bisect_right(marks, e['seq'])


def runtime_vars(built):
    """varinfo + auto-IVC outputs (named through OpenMDAO's connection table) + src_abs."""
    V = {a: dict(m) for a, m in built['vi']['vars'].items()}
    conns = built['prob'].model._conn_global_abs_in2out
    for a in list(V):
        m = V[a]
        if m['io'] == 'input':
            m['src_abs'] = conns.get(a)
            s = m['src_abs']
            if s and s.startswith('_auto_ivc.'):
                e = V.setdefault(s, {'io': 'output', 'discrete': m['discrete'], 'comp': '_auto_ivc', 'size': m['size'],
                                     'units': m['units'], 'src': None, 'prom': {'': s}, 'alt': []})
                if m['prom'][''] not in e['alt']:
                    e['alt'].append(m['prom'][''])
    return V


def voi_sources(spec, V):
    d = spec['driver']
    byprom = {}
    for a, m in V.items():
        if m['io'] == 'output':
            byprom[m['prom']['']] = a
            for alt in m.get('alt', []):
                byprom[alt] = a
    return {'desvar': {byprom[x['name']] for x in d['desvars'] if x['name'] in byprom},
            'objective': {byprom[d['objective']['name']]} if d['objective'] else set(),
            'constraint': {byprom[x['name']] for x in d['constraints'] if x['name'] in byprom}}


def expected_name(e):
    from omv.kit.recmon import coord_string
    if e['kind'] == 'problem':
        return e['name']
    return coord_string(e['stack'], e['prefix'])


def _names_of(pad):
    return set(pad.absolute_names()) if pad is not None else set()


class Judge:
    def __init__(self, acc, case):
        self.acc = acc
        self.case = case
        self.bad = False

    def viol(self, key, what, detail=None):
        self.acc.viol(key, what, self.case, detail=detail, new_case=not self.bad)
        self.bad = True


def judge(spec, acc):
    import openmdao.api as om
    from omv.gen import recmodels as G
    from omv.kit.recmon import values_equal
    case = {'spec': spec}
    J = Judge(acc, case)
    events, built, err = execute(spec)
    if err is not None:
        e, tb = err
        # the generator only produces configurations OpenMDAO documents as legal
        where = ''
        for line in tb.splitlines():
            if '/openmdao/' in line and 'File' in line:
                where = line.strip().split('/openmdao/')[-1].split('"')[0] + ':' + line.strip().split(' in ')[-1]
        J.viol('scenario-raises:%s@%s' % (type(e).__name__, where), '%s: %s' % (type(e).__name__, str(e)[:300]),
               detail=tb)
        return
    acc.count('obs:events', len(events))
    for e in events:
        acc.count('obs:kind:' + e['kind'])
    if not events:
        acc.skip('no-case-recorded')
        return
    V = runtime_vars(built)
    voi = voi_sources(spec, V)
    scaled = any(m.get('ref') for m in V.values())
    rec_ids = {id(r): f for f, r in built['recs']}
    opts = spec['recorders']['options']
    total_cases = 0
    for fname, rec in built['recs']:
        evs = [e for e in events if e['rec'] == id(rec) and e['kind'] != 'derivs']
        devs = [e for e in events if e['rec'] == id(rec) and e['kind'] == 'derivs']
        if not os.path.exists(fname):
            if evs:
                J.viol('file-missing', 'recorder file %s was never created although %d cases were recorded'
                       % (fname, len(evs)))
            continue
        try:
            cr = om.CaseReader(fname, pre_load=bool(spec.get('preload')))
        except Exception as ex:   # noqa
            J.viol('reader-open-raises:%s' % type(ex).__name__, str(ex)[:300])
            continue
        total_cases += len(evs)
        check_file(cr, evs, devs, spec, V, voi, scaled, opts, J, values_equal)
    if total_cases == 0:
        acc.skip('no-case-recorded')
        return
    if not J.bad:
        acc.ok(fingerprint(G.summary(spec)), sample=case if spec['seed'] % 97 == 0 else None)


def _guard(J, key, fn, *a, **kw):
    try:
        return True, fn(*a, **kw)
    except Exception as ex:  # noqa
        J.viol('%s:raises:%s' % (key, type(ex).__name__), '%s raised %s: %s' % (key, type(ex).__name__, str(ex)[:200]))
        return False, None


def check_file(cr, evs, devs, spec, V, voi, scaled, opts, J, values_equal):
    acc = J.acc
    N = len(evs)
    exp_names = [expected_name(e) for e in evs]
    hier = [n for n, e in zip(exp_names, evs) if e['kind'] != 'problem']
    dup = len(set(hier)) != len(hier)
    if dup:
        acc.count('obs:files_with_coordinate_collision')
    cpre = COLL if dup else ''
    ordinal = {e['seq']: i for i, e in enumerate(evs)}
    # Problem.record(case_name): "Name used to identify this Problem case" - a name the user gives twice does not
    # identify a case; look-ups of such cases (by name, by index, get_cases('problem')) are not judged.
    pnames = [n for n, e in zip(exp_names, evs) if e['kind'] == 'problem']
    pdup = set(n for n in pnames if pnames.count(n) > 1)

    # (iii) order of list_cases()
    ok, names = _guard(J, 'list_cases()', cr.list_cases, out_stream=None)
    if ok:
        names = list(names)
        if names != exp_names:
            if sorted(names) == sorted(exp_names):
                J.viol('list_cases():order', 'list_cases() order differs from execution order: got %s expected %s'
                       % (names[:6], exp_names[:6]))
            else:
                J.viol('list_cases():content', 'list_cases() returned %d names, %d events logged; got %s expected %s'
                       % (len(names), N, names[:5], exp_names[:5]))
        acc.count('obs:list_cases_all')

    # (v) get_case by global index, values, selection
    for i, e in enumerate(evs):
        if e['kind'] == 'problem' and exp_names[i] in pdup:
            acc.count('obs:user_duplicated_problem_case_name:lookup_not_judged')
            continue
        ipre = COLL if (e['kind'] != 'problem' and exp_names.count(exp_names[i]) > 1) else ''
        acc.count('obs:get_case_index')
        try:
            c = cr.get_case(i)
            exc = None
        except Exception as ex:  # noqa
            c, exc = None, ex
        right = (c is not None and c.counter == i + 1 and _ns(c.source) == _ns(e['source']) and c.name == exp_names[i])
        if not right:
            got = ('raised %s: %s' % (type(exc).__name__, str(exc)[:80])) if exc is not None else \
                (None if c is None else (c.source, c.name, c.counter))
            if e['kind'] == 'problem':
                key = 'get_case(index):problem:index-not-resolved'
            elif exc is not None:
                key = 'get_case(index):%s:raises:%s' % (e['kind'], type(exc).__name__)
            elif ipre and c is not None and c.name == exp_names[i] and _ns(c.source) == _ns(e['source']):
                # the collision mechanism: the index is resolved through the (repeated) coordinate, so a case of
                # the same name and source, but of another run, comes back
                key = ipre + 'get_case(index):%s:wrong-case' % e['kind']
            else:
                key = 'get_case(index):%s:wrong-case' % e['kind']
            J.viol(key, 'get_case(%d) returned %s, expected event #%d (%s, %s)' % (i, got, i + 1, e['source'], exp_names[i]))
            if e['kind'] != 'problem':
                continue
            # reach the problem case by name so that its contents are still judged
            try:
                c = cr.get_case(exp_names[i])
            except Exception:  # noqa
                continue
            if c is None or c.counter != i + 1:
                continue
        acc.count('obs:cases_read')
        check_case(c, e, devs, spec, V, voi, scaled, opts, J, values_equal, exp_names[i])
        # by name
        if exp_names.count(exp_names[i]) == 1:
            ok, c2 = _guard(J, 'get_case(name):' + e['kind'], cr.get_case, exp_names[i])
            acc.count('obs:get_case_name')
            if ok and (c2 is None or c2.counter != i + 1 or _ns(c2.source) != _ns(e['source'])):
                J.viol('get_case(name):%s:wrong-case' % e['kind'],
                       'get_case(%r) returned counter %s source %s, expected %d %s'
                       % (exp_names[i], getattr(c2, 'counter', None), getattr(c2, 'source', None), i + 1, e['source']))
        else:
            # a repeated coordinate denotes several cases: any of them is an acceptable answer
            ok, c2 = _guard(J, 'get_case(name)', cr.get_case, exp_names[i])
            cand = [k + 1 for k, n in enumerate(exp_names) if n == exp_names[i]]
            if ok and (c2 is None or c2.counter not in cand):
                J.viol('get_case(name):%s:wrong-case' % e['kind'], 'case name %r denotes the cases %s; get_case returned '
                       'counter %s' % (exp_names[i], cand, getattr(c2, 'counter', None)))

    # (iv) sources and hierarchy
    exp_sources = sorted(set(e['source'] for e in evs))
    ok, srcs = _guard(J, 'list_sources', cr.list_sources, out_stream=None)
    if ok and sorted(srcs) != exp_sources:
        J.viol('list_sources', 'list_sources()=%s, events came from %s' % (sorted(srcs), exp_sources))
    for s in exp_sources:
        mine = [e for e in evs if e['source'] == s]
        # recurse=False
        ok, got = _guard(J, 'list_cases(source,recurse=False)', cr.list_cases, s, recurse=False, out_stream=None)
        acc.count('obs:list_cases_source')
        if ok and list(got) != [expected_name(e) for e in mine]:
            J.viol('list_cases(source,recurse=False):%s' % evs_kind(mine),
                   'list_cases(%r, recurse=False)=%s expected %s' % (s, list(got)[:6], [expected_name(e) for e in mine][:6]))
        # recurse=True, flat=True
        if s == 'problem':
            exp = [[e] for e in mine]
        else:
            exp = []
            for e in mine:
                fr = e['frames']
                exp.append([d for d in evs if d['kind'] != 'problem' and d['seq'] <= e['seq'] and
                            d['frames'][:len(fr)] == fr and len(fr) > 0])
        flat = [d for grp in exp for d in grp]
        if any(len(g) > 1 for g in exp):
            acc.count('obs:descendant_queries_with_children')
        ok, got = _guard(J, 'list_cases(source,recurse=True)', cr.list_cases, s, recurse=True, flat=True,
                         out_stream=None)
        if ok:
            got = list(got)
            want = [expected_name(d) for d in flat]
            if got != want:
                kind = 'duplicates' if len(got) > len(want) else ('missing' if len(got) < len(want) else 'different')
                # the collision mechanism (descendants are looked up through the repeated coordinate of each
                # source case) can only repeat/drop names of true descendants; a foreign name is something else
                pre = cpre if (s != 'problem' and set(got) <= set(want)) else ''
                J.viol(pre + 'list_cases(source,recurse=True)-%s:%s' % (kind, evs_kind(mine)),
                       'list_cases(%r, recurse=True, flat=True) returned %d names, its cases have %d descendants '
                       '(incl. themselves); got %s expected %s' % (s, len(got), len(want), got[:5], want[:5]))
        # get_cases: identity by counter
        if s == 'problem' and pdup:
            acc.count('obs:user_duplicated_problem_case_name:lookup_not_judged')
            continue
        ok, gc = _guard(J, 'get_cases(source,recurse=True)', cr.get_cases, s, recurse=True, flat=True)
        if ok:
            gotc = [c.counter for c in gc]
            wantc = [ordinal[d['seq']] + 1 for d in flat]
            if gotc != wantc:
                pre = cpre if (s != 'problem' and set(c.name for c in gc) <= set(expected_name(d) for d in flat)) else ''
                J.viol(pre + 'get_cases(source,recurse=True):wrong-cases:%s' % evs_kind(mine),
                       'get_cases(%r, recurse=True, flat=True) counters %s expected %s' % (s, gotc[:8], wantc[:8]))
        # nested: every descendant appears exactly once, when every parent frame of it was recorded
        if s != 'problem' and not dup:
            complete = all(_chain_recorded(d, e, evs) for e, grp in zip(mine, exp) for d in grp)
            ok, nest = _guard(J, 'list_cases(source,flat=False)', cr.list_cases, s, recurse=True, flat=False,
                              out_stream=None)
            if ok and complete and isinstance(nest, dict):
                gotn = sorted(_flatten(nest))
                wantn = sorted(expected_name(d) for d in flat)
                acc.count('obs:nested_queries')
                if gotn != wantn:
                    J.viol('list_cases(source,flat=False):%s' % evs_kind(mine),
                           'nested list_cases(%r) holds %d names, expected %d descendants; got %s expected %s'
                           % (s, len(gotn), len(wantn), gotn[:5], wantn[:5]))
    # a single case as source (coordinate)
    if not dup:
        for i, e in enumerate(evs):
            if e['kind'] == 'problem' or i % 3:
                continue
            fr = e['frames']
            want = [expected_name(d) for d in evs if d['kind'] != 'problem' and d['seq'] <= e['seq']
                    and d['frames'][:len(fr)] == fr]
            ok, got = _guard(J, 'list_cases(coordinate)', cr.list_cases, exp_names[i], recurse=True, flat=True,
                             out_stream=None)
            acc.count('obs:list_cases_coordinate')
            if ok and list(got) != want:
                J.viol('list_cases(coordinate):%s' % e['kind'],
                       'list_cases(%r) = %s, descendants are %s' % (exp_names[i], list(got)[:6], want[:6]))


def _ns(s):
    """Case.source carries the system path with or without the leading 'root.'; not part of the property."""
    if s is None:
        return s
    if s.startswith('root.'):
        return s[5:]
    return '' if s == 'root' else s


def evs_kind(evs):
    return evs[0]['kind'] if evs else 'none'


def _flatten(d):
    out = []
    for k, v in d.items():
        out.append(k)
        if isinstance(v, dict):
            out += _flatten(v)
    return out


def _chain_recorded(d, e, evs):
    """every frame between e and d (exclusive) has a recorded case of its own."""
    fe, fd = e['frames'], d['frames']
    have = set(tuple(x['frames']) for x in evs)
    for k in range(len(fe) + 1, len(fd)):
        if tuple(fd[:k]) not in have:
            return False
    return True


def check_case(c, e, devs, spec, V, voi, scaled, opts, J, values_equal, name):
    acc = J.acc
    kind = e['kind']
    snap = e['snap']
    # requester + options
    if kind == 'problem':
        okey, path = 'problem:', ''
    elif kind == 'driver':
        okey, path = 'driver:', ''
    else:
        p = e['source'][5:] if e['source'].startswith('root.') else ''
        if kind == 'system':
            path = p
            okey = 'system:' + path
        else:
            ls = p.endswith('.linesearch') or p == 'nonlinear_solver.linesearch'
            p = p.replace('.linesearch', '')
            path = p[:-len('nonlinear_solver')].rstrip('.')
            okey = ('linesearch:' if ls else 'solver:') + path
            kind = 'linesearch' if ls else 'solver'
    o = opts.get(okey, {})
    sel = selection(kind, path, o, V, voi)
    got = {'input': _names_of(c.inputs), 'output': _names_of(c.outputs), 'residual': _names_of(c.residuals)}
    for io in ('input', 'output', 'residual'):
        # storage fidelity: reader shows exactly the variables handed to the recorder
        want = set(e['keys'][io])
        if got[io] != want:
            J.viol('stored-vars:%s:%s' % (kind, io), 'case %s (%s) %ss read back %s, recorder was given %s'
                   % (name, e['source'], io, sorted(got[io])[:8], sorted(want)[:8]))
        # selection semantics
        for a, (verdict, reason) in sel[io].items():
            if verdict == 'P':
                acc.count('obs:selection_judged_present')
                if a not in got[io]:
                    J.viol(('selection:%s:%s:%s:missing' % (reason, kind, io)) if reason.startswith('record_outputs-off:')
                           else ('selection:%s:%s:missing:%s' % (kind, io, reason)),
                           '%s %s %r must be recorded (%s; options %s) but case %s lacks it'
                           % (kind, io, a, reason, json.dumps(o, sort_keys=True), name))
            elif verdict == 'A':
                acc.count('obs:selection_judged_absent')
                if a in got[io]:
                    J.viol('selection:%s:%s:unexpected:%s' % (kind, io, reason),
                           '%s %s %r must not be recorded (%s; options %s) but case %s contains it'
                           % (kind, io, a, reason, json.dumps(o, sort_keys=True), name))
        # values
        pad = {'input': c.inputs, 'output': c.outputs, 'residual': c.residuals}[io]
        for a in got[io]:
            if io == 'residual' and scaled:
                continue
            exp = None
            ulps = 0
            if scaled and io == 'output' and kind in ('system', 'solver', 'linesearch'):
                # recorded while the vectors are in the solver-scaled state: the reference is the physical value seen
                # in compute(); a value that went through y/ref*ref round trips may differ from it by a few ulp
                ulps = 8
                m = V.get(a)
                if m is None or m['comp'] not in snap['last'] or a.split('.')[-1] not in snap['last'][m['comp']][1]:
                    continue
                exp = snap['last'][m['comp']][1][a.split('.')[-1]]
            else:
                exp = snap[io].get(a)
            if exp is None and a not in snap[io]:
                J.viol('value:%s:%s:unknown-variable' % (kind, io), 'case %s holds %s %r which the model does not have'
                       % (name, io, a))
                continue
            try:
                val = pad[a]
            except Exception as ex:  # noqa
                J.viol('value:%s:%s:lookup-raises:%s' % (kind, io, type(ex).__name__), 'case.%ss[%r]: %s' % (io, a, ex))
                continue
            acc.count('obs:values_compared')
            if not values_equal(val, exp) and not (ulps and _close(val, exp, ulps)):
                m = V.get(a, {})
                tag = 'discrete' if m.get('discrete') else 'continuous'
                vkey = 'value:%s:%s:%s' % (kind, io, tag)
                raw = snap[io].get(a)
                if (scaled and io == 'output' and m.get('ref') and kind in ('system', 'solver', 'linesearch')
                        and raw is not None and values_equal(val, raw)):
                    # exactly the content of the (scaled) output vector at record time: physical value / ref
                    vkey = 'value:stored-in-solver-scaled-space:%s:%s' % (kind, io)
                J.viol(vkey, 'case %s %s %r = %s, model had %s at record time'
                       % (name, io, a, np.asarray(val).tolist() if not isinstance(val, (str, bool)) else val,
                          np.asarray(exp).tolist() if not isinstance(exp, (str, bool)) else exp))
    # errors
    if kind in ('solver', 'linesearch', 'problem'):
        for fld, key in (('abs_err', 'abs'), ('rel_err', 'rel')):
            want = e.get(key)
            g = getattr(c, fld)
            acc.count('obs:errors_compared')
            if want is not None and want != want and g is None:
                continue          # SQLite stores a NaN REAL as NULL; not a recorded model variable
            if not ((g is None and want is None) or (g is not None and want is not None and
                                                      (g == want or (g != g and want != want)))):
                J.viol('value:%s:%s' % (kind, fld), 'case %s %s=%r, recorder was given %r' % (name, fld, g, want))
    # derivatives
    if e['kind'] == 'problem':
        tot = e.get('totals') or {}
        check_derivs(c, tot, J, 'problem', name)
    elif e['kind'] == 'driver':
        same = [d for d in devs if expected_name(d) == name]
        # the derivative record that belongs to this case is the one written by the same run_driver call; records of
        # ANOTHER run filed under the same (repeated) coordinate are not this case's derivatives
        own = [d for d in same if d['step'] == e['step']]
        other = [d for d in same if d['step'] != e['step']]
        if c.derivatives is not None and not same:
            J.viol('derivatives:driver:from-nowhere', 'case %s shows derivatives but none were recorded for it' % name)
        elif other and any(_shows(c, d) for d in other) and not (own and _shows(c, own[0])):
            # the collision mechanism: case row and derivative row are each fetched through the coordinate
            # (SELECT ... FROM driver_derivatives WHERE iteration_coordinate=?), so a case of one run comes back with
            # exactly the derivative record another run stored under the same coordinate
            d = [d for d in other if _shows(c, d)][0]
            dv = sorted(voi['desvar'])[0] if voi['desvar'] else None
            J.viol(COLL + 'derivatives:driver:of-another-run',
                   'case %s of run #%d (counter %s%s) is shown with the total derivatives that run #%d recorded under '
                   'the same coordinate%s; its own run recorded %s for it'
                   % (name, e['step'], c.counter,
                      ', %s=%s' % (dv, np.asarray(e['snap']['output'].get(dv)).tolist()) if dv else '', d['step'],
                      ' at %s=%s' % (dv, np.asarray(d['snap']['output'].get(dv)).tolist()) if dv else '',
                      'other derivatives' if own else 'none'))
        elif not own:
            check_derivs(c, {}, J, 'driver', name)
        else:
            d = own[0]
            check_derivs(c, d['derivs'], J, 'driver', name)
            acc.count('obs:driver_derivs_compared')
            # the derivatives shown for a case must be those of the case's own design point
            for dv in voi['desvar']:
                x_case = e['snap']['output'].get(dv)
                x_der = d['snap']['output'].get(dv)
                if x_case is not None and x_der is not None and not values_equal(x_case, x_der):
                    # recorded before the model was even run for this case: the record carries the coordinate of
                    # the *next* driver iteration
                    how = 'recorded-before-its-case-at-previous-design-point' if d['seq'] < e['seq'] else \
                        'of-a-different-design-point'
                    J.viol('derivatives:driver:%s:%s' % (how, spec['driver']['kind']),
                           'case %s (desvar %s=%s) is shown with total derivatives computed at %s=%s'
                           % (name, dv, x_case.tolist(), dv, x_der.tolist()))
                    break


def _shows(c, d):
    """True if the derivatives the case displays are exactly those of the derivative record d."""
    from omv.kit.recmon import values_equal
    got, want = c.derivatives, d['derivs']
    if got is None or len(got) != len(want):
        return False
    try:
        return all(values_equal(np.asarray(got[k if isinstance(k, str) else '!'.join(k)]), np.asarray(v))
                   for k, v in want.items())
    except Exception:  # noqa
        return False


def _close(a, b, ulps):
    try:
        a = np.asarray(a, dtype=float).ravel()
        b = np.asarray(b, dtype=float).ravel()
    except Exception:  # noqa
        return False
    if a.size != b.size or not (np.all(np.isfinite(a)) and np.all(np.isfinite(b))):
        return False
    return bool(np.all(np.abs(a - b) <= ulps * 2.3e-16 * np.maximum(np.abs(a), np.abs(b))))


def check_derivs(c, want, J, kind, name):
    from omv.kit.recmon import values_equal
    got = c.derivatives
    if not want:
        if got is not None and len(got):
            J.viol('derivatives:%s:unexpected' % kind, 'case %s shows derivatives %s, none were given' % (name, list(got)[:3]))
        return
    if got is None:
        J.viol('derivatives:%s:missing' % kind, 'case %s lacks the %d recorded derivatives' % (name, len(want)))
        return
    if len(got) != len(want):
        J.viol('derivatives:%s:count' % kind, 'case %s shows %d derivative blocks, %d were recorded' % (name, len(got), len(want)))
    for k, v in want.items():
        key = k if isinstance(k, str) else '!'.join(k)
        try:
            g = got[key]
        except Exception as ex:  # noqa
            J.viol('derivatives:%s:lookup-raises:%s' % (kind, type(ex).__name__), 'case %s derivatives[%r]: %s' % (name, key, ex))
            return
        J.acc.count('obs:deriv_blocks_compared')
        if not values_equal(np.asarray(g), np.asarray(v)):
            J.viol('derivatives:%s:value' % kind, 'case %s d%s = %s, recorded %s' % (name, key, np.asarray(g).tolist(),
                                                                                    np.asarray(v).tolist()))
            return


# ----------------------------------------------------------------------------------------------
# framework entry points
# ----------------------------------------------------------------------------------------------
def shards(tier, seed):
    if tier == 'quick':
        n, per = 16, 6
    else:
        n, per = 48, 34
    return [{'base': seed * 1000003 + k * per, 'n': per, 'tier': tier} for k in range(n)]


def run_shard(shard, acc):
    for s in range(shard['base'], shard['base'] + shard['n']):
        spec = make_spec(s, shard['tier'])
        judge(spec, acc)


def run_case(case, acc):
    judge(case['spec'], acc)


def coverage_extra(tier, agg):
    return {'exhaustive': False}
