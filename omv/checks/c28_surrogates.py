"""C28 - Surrogate models reproduce training data and their own derivatives.

Monitor: reference comparison at SurrogateModel.train/predict/linearize and at the outputs / partials of
MetaModelUnStructuredComp.

parts
  rs       ResponseSurface trained on >= (n+1)(n+2)/2 well-spread samples of a random quadratic (1-3 outputs):
           predict == the quadratic and linearize == its gradient at new points inside the training box.
  nn       NearestNeighbor(linear | weighted | rbf (+num_neighbors, rbf_family)): predict(x_i) == y_i at every
           training point; linearize(x) == 5-point central difference of predict at points whose whole stencil
           keeps the same ordered neighbour set (the interpolants are only piecewise smooth) and stays away from
           training points; two step sizes must agree (otherwise the point is discarded).
  kriging  KrigingSurrogate(nugget=0, eval_rmse on/off): predict(x_i) == y_i within the bound that follows from the
           implementation's Tikhonov-regularised pseudo-inverse (h = 1e-8 s_max) and the conditioning of the
           correlation matrix rebuilt from the fitted thetas; linearize == complex-step derivative of predict.
  comp     MetaModelUnStructuredComp (vec_size 1/3, default_surrogate or per-output surrogate, scalar + vector
           inputs, scalar / vector outputs): outputs == predict and partials == linearize of an identically
           configured surrogate trained directly on the same data; after new training data + `train = True` the
           outputs follow the new data.
  layout   the component's input layout: 2-4 inputs of mixed sizes in every order (array first / in the middle /
           several arrays / 2-D shaped inputs, total <= 6 columns), vec_size 1 and > 1, 1-3 outputs of different shapes
           each with its own surrogate or the default_surrogate, inputs optionally fed through a connection with a unit
           conversion, training data through add_input/add_output(training_data=) or through the options (before /
           after setup), variables declared on the instance or in setup() of a subclass, fwd/rev totals through the
           dictionary or an assembled (dense/csc) jacobian.  The harness concatenates the training matrix and the
           query point itself (own column offsets = cumulative sizes) and demands: outputs == predict(own
           concatenation); compute_totals and the component's own sub-jacobians == linearize(...)[:, own columns]
           (times the conversion factor for a connected source); compute_totals == 5-point central difference of the
           component's outputs (two step sizes; NN interpolants only where the neighbour set is constant over the
           stencil).  Repeated after retraining on new data (same / different number of samples) or after a second
           setup().

Tolerances are derived from conditioning (design matrix, neighbour simplex, RBF weights, correlation matrix);
ill-conditioned training sets are discarded and counted.
"""
import copy
import os
import traceback

import numpy as np

from omv.core import fingerprint
from omv.ref import surrogate_ref as S

PROPERTY = 'C28'
LEVEL = 'exploration'
TECHNIQUE = 'runtime monitoring: generating function / training data / numerical differentiation of predict; component-vs-surrogate differential'
RULE = ('training sets of well-separated random points (dimension 1-4 (rbf: up to 7), 6-40 points, 1-3 outputs) in boxes of random '
        'location/scale x surrogate option grid (NN type, num_neighbors, rbf_family; Kriging eval_rmse; component '
        'vec_size, default vs per-output surrogate, input/output shapes; component input layouts: 2-4 inputs of mixed '
        'sizes in every order x vec_size x per-output surrogates x unit-converting connections x training-data route x '
        'declaration site x retrain/re-setup x fwd/rev x jacobian type); distinct = distinct (part, surrogate, '
        'options, dims, points, outputs); non-trivial = trained and at least one observable judged')
LEVEL_TEXT = 'randomised exploration with conditioning-derived tolerances over every stock surrogate and the component'
ASSUMPTIONS = ['Kriging nugget=0 still applies the documented Tikhonov regularisation (h = 1e-8*s_max); the reproduction '
               'bound includes its exact effect; sets whose bound exceeds 1e-3 are discarded',
               'Kriging may reject a training set (hyper-parameter optimisation failure raises ValueError): discarded',
               'NN interpolants are differentiated only where the ordered neighbour set is locally constant',
               'weighted-NN through NearestNeighbor.predict uses the call-time defaults (num_neighbors=5)',
               'component layout part: the reference is an identically configured surrogate trained on the matrix the '
               'harness concatenates itself; the component sub-jacobian is read from comp._jacobian (internal; if it '
               'cannot be read the observation is skipped and the run is INCONCLUSIVE)',
               'unit conversions of connected inputs follow the harness table (cm>m, km>m, min>s, inch>ft, degC>degK)']
MIN_JUDGED = {'quick': 200, 'thorough': 3000}
SHARD_TIMEOUT = {'quick': 600, 'thorough': 2400}
REQUIRED_COUNTERS = ['obs:rs:predict', 'obs:rs:linearize', 'obs:nn:linear:train-point', 'obs:nn:weighted:train-point',
                     'obs:nn:rbf:train-point', 'obs:nn:linear:linearize', 'obs:nn:weighted:linearize',
                     'obs:nn:rbf:linearize', 'obs:kriging:train-point', 'obs:kriging:linearize',
                     'obs:comp:output', 'obs:comp:partials', 'obs:comp:retrain', 'obs:comp:vec_size>1',
                     'obs:comp:default_surrogate', 'cell:comp:rs', 'cell:comp:nn-linear', 'cell:comp:nn-weighted',
                     'cell:comp:nn-rbf', 'cell:comp:kriging',
                     'obs:layout:output', 'obs:layout:totals', 'obs:layout:component-jacobian', 'obs:layout:fd',
                     'cell:layout:vec=1:array-before-another-input', 'cell:layout:vec>1:array-before-another-input',
                     'cell:layout:several-array-inputs', 'cell:layout:2d-input',
                     'cell:layout:unit-conversion-on-connection', 'cell:layout:different-surrogates',
                     'cell:layout:default_surrogate', 'cell:layout:data-route:kw', 'cell:layout:data-route:options-pre',
                     'cell:layout:data-route:options-post', 'cell:layout:declared-in:setup',
                     'cell:layout:then:retrain', 'cell:layout:then:retrain-resized', 'cell:layout:then:resetup']

EPS = S.EPS
W5 = np.array([1.0, -8.0, 0.0, 8.0, -1.0]) / 12.0


def _where(e):
    seen, chain = set(), []
    while e is not None and id(e) not in seen:
        seen.add(id(e))
        chain.append(e)
        e = e.__cause__ or e.__context__
    for x in reversed(chain):
        for fr in reversed(traceback.extract_tb(x.__traceback__)):
            if '/openmdao/' in fr.filename:
                return type(x).__name__, '%s:%s' % (os.path.basename(fr.filename), fr.name)
    return type(chain[0]).__name__, '?'


def _exc_key(prefix, e, suffix=''):
    """'<surrogate>:raises:<Exc>@<where>:<call context>' - the code location comes before the context so that one
    mechanism (one faulty statement) has one key prefix."""
    n, w = _where(e)
    return '%s:raises:%s@%s%s' % (prefix, n, w, (':' + suffix) if suffix else '')


class _Report(object):
    def __init__(self, acc, case):
        self.acc, self.case, self.bad, self.judged = acc, case, False, False

    def viol(self, key, what):
        self.acc.viol(key, what, self.case, new_case=not self.bad)
        self.bad = True

    def done(self):
        if self.bad:
            return
        if self.judged:
            self.acc.ok(fingerprint({k: v for k, v in self.case.items() if k != 'seed'}),
                        sample=self.case if self.case['seed'] % 53 == 0 else None)
        else:
            self.acc.skip('nothing-judged')


def _box(rng, d):
    lo = rng.uniform(-5, 5, d)
    span = 10.0 ** rng.uniform(-0.5, 1.0, d)
    return lo, lo + span


def _make_surrogate(spec):
    from openmdao.surrogate_models.nearest_neighbor import NearestNeighbor
    from openmdao.surrogate_models.kriging import KrigingSurrogate
    from openmdao.surrogate_models.response_surface import ResponseSurface
    kind = spec['kind']
    if kind == 'rs':
        return ResponseSurface()
    if kind == 'kriging':
        return KrigingSurrogate(nugget=0.0, eval_rmse=bool(spec.get('eval_rmse')))
    return NearestNeighbor(interpolant_type=kind.split('-')[1], **(spec.get('opts') or {}))


def _skey(spec, d=None):
    k = spec['kind']
    o = spec.get('opts') or {}
    if 'rbf_family' in o:
        k += ':family=%d' % o['rbf_family']
        if d is not None and o['rbf_family'] >= 0:
            # the rbf tables are selected by the input dimension class
            k += ':d=%s' % ('1' if d <= 1 else '2-3' if d <= 3 else '4-5' if d <= 5 else '6+')
    return k


def _predict(sur, x):
    p = sur.predict(np.array(x, dtype=float).copy())
    if isinstance(p, tuple):
        p = p[0]
    return np.asarray(p, dtype=float).ravel()


# ------------------------------------------------------------------------------------------------
def judge_rs(case, acc):
    rng = np.random.default_rng(case['seed'])
    d, k, m = case['d'], case['k'], case['m']
    rep = _Report(acc, case)
    lo, hi = _box(rng, d)
    x = S.separated_points(rng, m, d, lo, hi)
    q = S.Quadratic(rng, d, k)
    y = np.array([q(p) for p in x])
    D = np.array([S.quad_features(p) for p in x])
    cond = float(np.linalg.cond(D))
    if not cond < 1e8:
        acc.skip('rs:design-matrix-ill-conditioned')
        return
    sur = _make_surrogate({'kind': 'rs'})
    try:
        sur.train(x.copy(), y.copy())
    except Exception as e:
        rep.viol(_exc_key('rs', e, 'train'), str(e)[:200])
        return
    bn = q.beta_norm()
    for _ in range(6):
        p = lo + rng.uniform(0, 1, d) * (hi - lo)
        try:
            got = _predict(sur, p)
            J = np.asarray(sur.linearize(p.copy()), dtype=float)
        except Exception as e:
            rep.viol(_exc_key('rs', e, 'predict'), str(e)[:200])
            break
        rep.judged = True
        acc.count('obs:rs:predict')
        ref = q(p)
        tol = 64 * EPS * cond * np.linalg.norm(S.quad_features(p)) * bn + 8 * EPS * np.abs(ref)
        if got.shape != ref.shape or not np.all(np.abs(got - ref) <= tol):
            rep.viol('rs:predict', 'd=%d m=%d: predict %s, quadratic %s (tol %.3g, cond %.3g)'
                     % (d, m, got.tolist(), ref.tolist(), float(np.max(tol)), cond))
            break
        acc.count('obs:rs:linearize')
        G = q.grad(p)
        tolg = 64 * EPS * cond * np.linalg.norm(S.quad_feature_grads(p), axis=1) * bn + 8 * EPS * np.abs(G)
        if J.shape != G.shape or not np.all(np.abs(J - G) <= tolg):
            rep.viol('rs:linearize', 'd=%d k=%d: linearize %s, gradient of the quadratic %s'
                     % (d, k, J.tolist(), G.tolist()))
            break
    rep.done()


# ------------------------------------------------------------------------------------------------
def _nn_train_tol(spec, sur, xn, y, i, d):
    """Absolute tolerance on predict(x_i) - y_i; None = ill-conditioned neighbourhood."""
    kind = spec['kind']
    yr = y.max(axis=0) - y.min(axis=0)
    yr[yr == 0] = 1.0
    ymag = np.abs(y).max(axis=0) + yr
    if kind == 'nn-weighted':
        return 16 * EPS * ymag
    yn = (y - y.min(axis=0)) / yr
    if kind == 'nn-linear':
        idx, dist = S.knn(xn, xn[i], d + 1)
        A = xn[idx[1:]] - xn[idx[0]]
        c = float(np.linalg.cond(A))
        if not c < 1e6:
            return None
        g = np.linalg.solve(A, yn[idx[1:]] - yn[idx[0]])           # (d, k) plane gradient, normalised units
        steep = np.sqrt(1.0 + (g ** 2).sum(axis=0))
        return 64 * EPS * (1 + c) * steep * (1 + np.abs(xn[i]).sum()) * yr + 16 * EPS * ymag
    # rbf: residual of the sparse solve + rounding of the dot product, scaled by the fitted weights
    N = sur.interpolant.N
    idx, dist = S.knn(xn, xn[i], N)
    if dist[-1] == 0:
        return None
    T = (dist[:-1] / dist[-1])[None, :]
    row = np.abs(sur.interpolant._find_R(1, T, idx[None, :]))[0]
    w = np.abs(sur.interpolant.weights[..., 0])                  # (n, k)
    amp = row @ w                                                # sum_j |R_ij| |w_j|
    return 256 * EPS * N * amp * yr + 16 * EPS * ymag


def judge_nn(case, acc):
    rng = np.random.default_rng(case['seed'])
    spec = case['spec']
    d, k, m = case['d'], case['k'], case['m']
    kind = spec['kind']
    short = kind.split('-')[1]
    rep = _Report(acc, case)
    lo, hi = _box(rng, d)
    x = S.separated_points(rng, m, d, lo, hi)
    freq = rng.uniform(0.5, 2.0, (k, d))
    xu = (x - lo) / (hi - lo)
    y = np.sin(xu @ freq.T * 3.0) * 10.0 ** rng.uniform(-1, 1) + rng.uniform(-1, 1, k)
    try:
        sur = _make_surrogate(spec)
        sur.train(x.copy(), y.copy())
    except Exception as e:
        rep.viol(_exc_key(_skey(spec), e, 'train'), str(e)[:200])
        return
    xn, xlo, xr = S.unit_normalise(x)
    # ---- training points
    nskip = 0
    for i in range(m):
        tol = _nn_train_tol(spec, sur, xn, y, i, d)
        if tol is None or np.any(tol > 1e-6 * (np.abs(y).max() + 1e-300)):
            nskip += 1
            continue
        try:
            got = _predict(sur, x[i])
        except Exception as e:
            rep.viol(_exc_key(_skey(spec), e, 'predict'), str(e)[:200])
            break
        rep.judged = True
        acc.count('obs:nn:%s:train-point' % short)
        if got.shape != (k,) or not np.all(np.abs(got - y[i]) <= tol):
            rep.viol('%s:train-point' % _skey(spec, d),
                     'd=%d m=%d k=%d point %d: predict %s, training output %s (tol %s)'
                     % (d, m, k, i, got.tolist(), y[i].tolist(), np.asarray(tol).tolist()))
            break
    if nskip:
        acc.count('skip:nn:ill-conditioned-neighbourhood', nskip)
    # ---- linearize vs central differences of predict
    N = (d + 1) if kind == 'nn-linear' else (5 if kind == 'nn-weighted' else sur.interpolant.N)
    yscale = np.abs(y).max() + 1e-300
    tried = 0
    done = 0
    while tried < 40 and done < 4:
        tried += 1
        p = lo + rng.uniform(0.1, 0.9, d) * (hi - lo)
        pn = (p - xlo) / xr
        idx0, dist0 = S.knn(xn, pn, N + 1)
        gap = min(dist0[0], np.min(np.diff(dist0)) if N > 1 else dist0[0])
        hn = 0.02 * gap / np.sqrt(d)        # normalised step: cannot reorder neighbours within 2 steps per axis
        if not hn > 1e-7:
            continue
        try:
            J = np.asarray(sur.linearize(p.copy()), dtype=float)
        except Exception as e:
            rep.viol(_exc_key(_skey(spec), e, 'linearize:in=%s,out=%s' % ('1' if d == 1 else 'n', '1' if k == 1 else 'n')), str(e)[:200])
            break
        if J.shape != (k, d):
            rep.viol('%s:linearize-shape' % _skey(spec), 'shape %s for %d outputs, %d inputs' % (J.shape, k, d))
            break
        ok_pt = True
        ref = np.empty((k, d))
        tol = np.empty((k, d))
        try:
            for ax in range(d):
                h = hn * xr[ax]
                same = True
                for s in (-2, -1, 1, 2):
                    ps = pn.copy()
                    ps[ax] += s * hn
                    idx, _ = S.knn(xn, ps, N)
                    if not np.array_equal(idx, idx0[:N]):
                        same = False
                if not same:
                    ok_pt = False
                    break

                def f(s):
                    ps = p.copy()
                    ps[ax] += s
                    return _predict(sur, ps)
                D1 = np.tensordot(W5, np.array([f(s * h) for s in (-2, -1, 0, 1, 2)]), axes=(0, 0)) / h
                D2 = np.tensordot(W5, np.array([f(s * h / 2) for s in (-2, -1, 0, 1, 2)]), axes=(0, 0)) / (h / 2)
                ref[:, ax] = D2
                # truncation (measured by step halving) + round-off of predict (1e3 eps relative: weights/rbf sums)
                tol[:, ax] = 2 * np.abs(D1 - D2) + 1.5 * 2 * (1e3 * EPS * yscale) / (h / 2)
        except Exception as e:
            rep.viol(_exc_key(_skey(spec), e, 'predict'), str(e)[:200])
            break
        if not ok_pt:
            acc.count('skip:nn:neighbour-set-changes')
            continue
        if np.any(tol > 1e-4 * (np.abs(ref) + yscale / xr[None, :])):
            acc.count('skip:nn:fd-unreliable')
            continue
        done += 1
        rep.judged = True
        acc.count('obs:nn:%s:linearize' % short)
        if not np.all(np.abs(J - ref) <= tol):
            a = np.unravel_index(np.argmax(np.abs(J - ref) - tol), J.shape)
            rep.viol('%s:linearize' % _skey(spec, d),
                     'd=%d k=%d x=%s: linearize[%d,%d]=%r, central difference of predict %r (tol %.3g)'
                     % (d, k, p.tolist(), a[0], a[1], J[a], ref[a], tol[a]))
            break
    rep.done()


# ------------------------------------------------------------------------------------------------
def judge_kriging(case, acc):
    rng = np.random.default_rng(case['seed'])
    spec = case['spec']
    d, k, m = case['d'], case['k'], case['m']
    rep = _Report(acc, case)
    lo, hi = _box(rng, d)
    x = S.separated_points(rng, m, d, lo, hi)
    xu = (x - lo) / (hi - lo)
    if case['data'] == 'rough':
        y = rng.uniform(-1, 1, (m, k)) * 10.0 ** rng.uniform(-1, 1)
    else:
        freq = rng.uniform(1.0, 3.0, (k, d))
        y = np.sin(xu @ freq.T * 4.0) * 10.0 ** rng.uniform(-1, 1) + rng.uniform(-1, 1, k)
    sur = _make_surrogate(spec)
    try:
        sur.train(x.copy(), y.copy())
    except ValueError as e:
        if 'optimization failed' in str(e):
            acc.skip('kriging:hyperparameter-optimisation-failed')
            return
        rep.viol(_exc_key('kriging', e, 'train'), str(e)[:200])
        return
    except Exception as e:
        rep.viol(_exc_key('kriging', e, 'train'), str(e)[:200])
        return
    thetas = np.asarray(sur.thetas, dtype=float)
    R, xn, xmean, xstd = S.kriging_R(x, thetas)
    reg, cond_eff, cond = S.kriging_bound(R)
    rel = reg + 64 * EPS * m * cond_eff
    acc.count('kriging:cond<1e4' if cond < 1e4 else ('kriging:cond<1e7' if cond < 1e7 else 'kriging:cond>=1e7'))
    ystd = y.std(axis=0)
    ystd[ystd == 0] = 1.0
    Yn = (y - y.mean(axis=0)) / ystd
    if rel > 1e-3:
        acc.count('skip:kriging:ill-conditioned-correlation-matrix')
    else:
        tol = ystd * np.linalg.norm(Yn, axis=0) * rel * np.sqrt(m) + 16 * EPS * (np.abs(y).max(axis=0) + ystd)
        for i in range(m):
            try:
                got = _predict(sur, x[i])
            except Exception as e:
                rep.viol(_exc_key('kriging', e, 'predict'), str(e)[:200])
                break
            rep.judged = True
            acc.count('obs:kriging:train-point')
            if got.shape != (k,) or not np.all(np.abs(got - y[i]) <= tol):
                rep.viol('kriging:train-point',
                         'd=%d m=%d point %d: predict %s, training output %s (tol %s, cond %.3g)'
                         % (d, m, i, got.tolist(), y[i].tolist(), tol.tolist(), cond))
                break
    # ---- linearize vs complex step of predict
    alpha = np.abs(np.asarray(sur.alpha, dtype=float))            # (m, k) fitted weights: tolerance scale only
    for _ in range(4):
        p = lo + rng.uniform(0.05, 0.95, d) * (hi - lo)
        try:
            J = np.asarray(sur.linearize(p.copy()), dtype=float)
            ref = np.empty((k, d))
            for ax in range(d):
                pc = p.astype(complex)
                pc[ax] += 1e-30j
                out = sur.predict(pc)
                if isinstance(out, tuple):
                    out = out[0]
                ref[:, ax] = np.asarray(out).ravel().imag / 1e-30
        except Exception as e:
            rep.viol(_exc_key('kriging', e, 'linearize'), str(e)[:200])
            break
        pn = (p - xmean) / xstd
        z = ((pn - xn) ** 2 * thetas).sum(axis=1)
        r = np.exp(-z)
        # exp(-z) carries a relative error of about eps*(1+z): rounding of its argument
        gradr = np.abs(r[:, None] * 2 * thetas[None, :] * (pn - xn)) * (1.0 + z)[:, None]       # (m, d)
        tol = 256 * EPS * (gradr.T @ alpha).T * ystd[:, None] / xstd[None, :] + 16 * EPS * np.abs(ref)
        # the complex-step reference carries Im = 1e-30 * derivative: below 1e-308 it is quantised by the
        # denormal spacing 4.94e-324, i.e. 4.94e-294 per term in derivative units
        tol = tol + 8 * (4.94e-324 / 1e-30) * (1.0 + alpha.sum(axis=0))[:, None] * ystd[:, None] / xstd[None, :]
        rep.judged = True
        acc.count('obs:kriging:linearize')
        if J.shape != (k, d) or not np.all(np.abs(J - ref) <= tol):
            rep.viol('kriging:linearize', 'd=%d k=%d x=%s: linearize %s, complex step of predict %s'
                     % (d, k, p.tolist(), J.tolist(), ref.tolist()))
            break
    rep.done()


# ------------------------------------------------------------------------------------------------
def judge_comp(case, acc):
    import openmdao.api as om
    rng = np.random.default_rng(case['seed'])
    spec = case['spec']
    rep = _Report(acc, case)
    vec = case['vec']
    m = case['m']
    in_sizes = case['in_sizes']          # e.g. [1, 2]  -> scalar input 'a', vector input 'b' of size 2
    out_sizes = case['out_sizes']        # e.g. [1, 2]
    d = sum(in_sizes)
    lo, hi = _box(rng, d)

    def data():
        x = S.separated_points(rng, m, d, lo, hi)
        xu = (x - lo) / (hi - lo)
        ys = []
        for sz in out_sizes:
            if spec['kind'] == 'rs':
                q = S.Quadratic(rng, d, sz)
                ys.append(np.array([q(p) for p in x]))
            elif spec['kind'] == 'kriging':
                ys.append(rng.uniform(-1, 1, (m, sz)))
            else:
                fr = rng.uniform(0.5, 2.0, (sz, d))
                ys.append(np.sin(xu @ fr.T * 3.0) + rng.uniform(-1, 1, sz))
        return x, ys

    def split_x(x):
        cols, i = [], 0
        for sz in in_sizes:
            cols.append(x[:, i] if sz == 1 else x[:, i:i + sz])
            i += sz
        return cols

    in_names = ['i%d' % j for j in range(len(in_sizes))]
    out_names = ['o%d' % j for j in range(len(out_sizes))]
    x1, ys1 = data()
    use_default = case['default_surrogate']
    try:
        comp = om.MetaModelUnStructuredComp(vec_size=vec, **({'default_surrogate': _make_surrogate(spec)}
                                                              if use_default else {}))
        for n, sz, col in zip(in_names, in_sizes, split_x(x1)):
            shape = (vec,) if sz == 1 else (vec, sz)
            val = np.zeros(shape) if vec > 1 else (0.0 if sz == 1 else np.zeros(sz))
            comp.add_input(n, val, training_data=(list(col) if sz == 1 else col.copy()))
        for n, sz, yy in zip(out_names, out_sizes, ys1):
            shape = (vec,) if sz == 1 else (vec, sz)
            val = np.zeros(shape) if vec > 1 else (0.0 if sz == 1 else np.zeros(sz))
            kw = {} if use_default else {'surrogate': _make_surrogate(spec)}
            comp.add_output(n, val, training_data=(list(yy[:, 0]) if sz == 1 else yy.copy()), **kw)
        prob = om.Problem()
        prob.model.add_subsystem('c', comp)
        prob.setup()
    except Exception as e:
        rep.viol(_exc_key(_skey(spec), e, 'comp:setup'), str(e)[:200])
        return
    acc.count('cell:comp:' + spec['kind'])
    if use_default:
        acc.count('obs:comp:default_surrogate')
    if vec > 1:
        acc.count('obs:comp:vec_size>1')

    def reference(x, ys):
        out = []
        for yy in ys:
            s = _make_surrogate(spec)
            s.train(x.copy(), yy.copy())
            out.append(s)
        return out

    def compare(x, ys, tag):
        """Set inputs, run, compare outputs/partials with directly trained surrogates."""
        try:
            refs = reference(x, ys)
        except Exception as e:
            # the surrogate alone rejects/fails on this data: not a component matter (judged by other parts)
            acc.count('skip:comp:reference-surrogate-raises')
            return False
        Q = lo + rng.uniform(0.1, 0.9, (vec, d)) * (hi - lo)
        i = 0
        for n, sz in zip(in_names, in_sizes):
            v = Q[:, i] if sz == 1 else Q[:, i:i + sz]
            prob.set_val('c.' + n, v if vec > 1 else (v[0]))
            i += sz
        try:
            prob.run_model()
            outs = {n: np.array(prob.get_val('c.' + n), dtype=float).copy() for n in out_names}
            of = ['c.' + n for n in out_names]
            wrt = ['c.' + n for n in in_names]
            Jc = prob.compute_totals(of=of, wrt=wrt, return_format='dict')
        except Exception as e:
            # mechanism first (surrogate kind + raising statement), calling context last: a fault inside a surrogate
            # has the same key prefix whether it is reached directly or through the component
            rep.viol(_exc_key(_skey(spec), e, 'comp:%s:vec=%s:out=%s' % (tag, '1' if vec == 1 else 'n',
                                                                        '1' if max(out_sizes) == 1 else 'n')), str(e)[:200])
            return False
        rep.judged = True
        for n, sz, s in zip(out_names, out_sizes, refs):
            got = outs[n].reshape(vec, sz)
            for r in range(vec):
                try:
                    ref = _predict(s, Q[r])
                    Jr = np.asarray(s.linearize(Q[r].copy()), dtype=float).reshape(sz, d)
                except Exception:
                    acc.count('skip:comp:reference-surrogate-raises')
                    return False
                acc.count('obs:comp:output')
                scale = np.abs(ref).max() + np.abs(ys[out_names.index(n)]).max()
                if not np.all(np.abs(got[r] - ref) <= 1e-9 * scale):
                    rep.viol('comp:%s:output-differs-from-predict:%s' % (_skey(spec), tag),
                             'vec=%d row %d output %s: component %s, surrogate.predict %s'
                             % (vec, r, n, got[r].tolist(), ref.tolist()))
                    return True
                acc.count('obs:comp:partials')
                i = 0
                for inn, isz in zip(in_names, in_sizes):
                    full = np.array(Jc['c.' + n]['c.' + inn], dtype=float)
                    # rows: (vec*sz), cols: (vec*isz); block r,r
                    blk = full.reshape(vec, sz, vec, isz)
                    mine = blk[r, :, r, :]
                    jscale = np.abs(Jr).max() + 1e-300
                    if not np.all(np.abs(mine - Jr[:, i:i + isz]) <= 1e-9 * jscale):
                        rep.viol('comp:%s:partials-differ-from-linearize:%s' % (_skey(spec), tag),
                                 'vec=%d row %d d%s/d%s: component %s, surrogate.linearize %s'
                                 % (vec, r, n, inn, mine.tolist(), Jr[:, i:i + isz].tolist()))
                        return True
                    for r2 in range(vec):
                        if r2 != r and np.any(blk[r, :, r2, :] != 0.0):
                            rep.viol('comp:%s:partials-couple-vec-rows' % _skey(spec), 'rows %d,%d' % (r, r2))
                            return True
                    i += isz
        return True

    ok = compare(x1, ys1, 'first-training')
    if ok and not rep.bad:
        # ---- new training data, retrain flag
        x2, ys2 = data()
        for n, sz, col in zip(in_names, in_sizes, split_x(x2)):
            comp.options['train_' + n] = (list(col) if sz == 1 else col.copy())
        for n, sz, yy in zip(out_names, out_sizes, ys2):
            comp.options['train_' + n] = (list(yy[:, 0]) if sz == 1 else yy.copy())
        comp.train = True
        acc.count('obs:comp:retrain')
        compare(x2, ys2, 'retrained')
    try:
        prob.cleanup()
    except Exception:
        pass
    rep.done()


# ------------------------------------------------------------------------------------------------
# Input-layout layer of the component: the component concatenates its inputs (declaration order, each flattened in
# C order) into the surrogate's input vector and cuts the surrogate jacobian back into per-input blocks.  The harness
# keeps its OWN column offsets (cumulative sizes) and builds the concatenated training matrix / query point itself.
UNIT_PAIRS = {        # own table: value seen by the component = (value of the connected source + offset) * factor
    'cm>m': ('cm', 'm', 0.01, 0.0),
    'km>m': ('km', 'm', 1000.0, 0.0),
    'min>s': ('min', 's', 60.0, 0.0),
    'inch>ft': ('inch', 'ft', 1.0 / 12.0, 0.0),
    'degC>degK': ('degC', 'degK', 1.0, 273.15),
}
_STENCIL = (-2, -1, 1, 2)
_W4 = np.array([1.0, -8.0, 8.0, -1.0]) / 12.0


def _size(shape):
    n = 1
    for s in shape:
        n *= int(s)
    return n


def _layout_class(in_sizes, j):
    """where input j sits: decides whether 'ordinal position' and 'cumulative size' column offsets differ"""
    if j == 0:
        return 'first-input'
    return 'input-after-array' if max(in_sizes[:j]) > 1 else 'input-after-scalars'


def _train_form(rng, arr, shape):
    """the documented forms of training data for one variable: arr is (m, size)"""
    m = arr.shape[0]
    if _size(shape) == 1:
        f = int(rng.integers(0, 3))
        if f == 0:
            return [float(v) for v in arr[:, 0]]
        if f == 1:
            return arr[:, 0].copy()
        return arr.reshape((m,) + (tuple(shape) or (1,))).copy()
    if rng.random() < 0.3:
        return [row.reshape(shape).copy() for row in arr]
    return arr.reshape((m,) + tuple(shape)).copy()


def _noise_amp(spec, sur, y, p):
    """magnitude of the terms summed by predict at p (per output column): scale of its round-off.  Tolerance only."""
    k = y.shape[1]
    kind = spec['kind']
    try:
        if kind == 'rs':
            return np.abs(S.quad_features(p)).max() * np.abs(np.asarray(sur.betas, dtype=float)).reshape(-1, k).sum(axis=0)
        if kind == 'kriging':
            xn = (p - sur.X_mean) / sur.X_std
            r = np.exp(-((xn - sur.X) ** 2 * sur.thetas).sum(axis=1))
            return np.abs(sur.Y_mean).ravel() + np.abs(sur.Y_std).ravel() * (r @ np.abs(sur.alpha))
    except Exception:
        pass
    return np.full(k, 16.0 * (np.abs(y).max() + 1e-300))


def judge_layout(case, acc):
    import openmdao.api as om
    rng = np.random.default_rng(case['seed'])
    rep = _Report(acc, case)
    vec = case['vec']
    ins, outs, dflt = case['ins'], case['outs'], case.get('default')
    in_shapes = [tuple(i['shape']) for i in ins]
    in_sizes = [_size(s) for s in in_shapes]
    out_shapes = [tuple(o['shape']) for o in outs]
    out_sizes = [_size(s) for s in out_shapes]
    off = [0]
    for sz in in_sizes:
        off.append(off[-1] + sz)                      # the harness's own column offsets
    d = off[-1]
    specs = [(o.get('spec') or dflt) for o in outs]
    in_names = ['i%d' % j for j in range(len(ins))]
    out_names = ['o%d' % j for j in range(len(outs))]
    pairs = [UNIT_PAIRS[i['conn']] if i.get('conn') else None for i in ins]
    fac = np.array([p[2] if p else 1.0 for p in pairs])
    ofs = np.array([p[3] if p else 0.0 for p in pairs])
    wrt = [('ivc.s%d' % j) if pairs[j] else ('c.' + in_names[j]) for j in range(len(ins))]
    of = ['c.' + n for n in out_names]
    route, declare, phase2 = case['route'], case['declare'], case['phase2']
    lo, hi = _box(rng, d)
    vtag = 'vec=1' if vec == 1 else 'vec>1'

    def data(m):
        x = S.separated_points(rng, m, d, lo, hi)
        xu = (x - lo) / (hi - lo)
        ys = []
        for sp, sz in zip(specs, out_sizes):
            if sp['kind'] == 'rs':
                q = S.Quadratic(rng, d, sz)
                ys.append(np.array([q(p) for p in x]))
            elif sp['kind'] == 'kriging':
                ys.append(rng.uniform(-1, 1, (m, sz)))
            else:
                fr = rng.uniform(0.5, 2.0, (sz, d))
                ys.append(np.sin(xu @ fr.T * 3.0) + rng.uniform(-1, 1, sz))
        return x, ys

    def forms(x, ys):
        t = {}
        for j, n in enumerate(in_names):
            t[n] = _train_form(rng, x[:, off[j]:off[j + 1]], in_shapes[j])
        for n, shp, yy in zip(out_names, out_shapes, ys):
            t[n] = _train_form(rng, yy, shp)
        return t

    def full(shape):
        if vec > 1:
            return (vec,) + tuple(shape)
        return tuple(shape) or (1,)

    cur = {}

    def declare_vars(comp, with_data):
        for j, n in enumerate(in_names):
            kw = {}
            u = pairs[j][1] if pairs[j] else ins[j].get('units')
            if u:
                kw['units'] = u
            if with_data:
                kw['training_data'] = cur['train'][n]
            comp.add_input(n, 0.0 if (vec == 1 and not in_shapes[j]) else np.zeros(full(in_shapes[j])), **kw)
        for n, shp, o in zip(out_names, out_shapes, outs):
            kw = {}
            if o.get('spec'):
                kw['surrogate'] = _make_surrogate(o['spec'])
            if with_data:
                kw['training_data'] = cur['train'][n]
            comp.add_output(n, 0.0 if (vec == 1 and not shp) else np.zeros(full(shp)), **kw)

    def give_options(comp):
        for n in in_names + out_names:
            comp.options['train_' + n] = cur['train'][n]

    x1, ys1 = data(case['m'])
    cur['train'] = forms(x1, ys1)
    try:
        ckw = {'vec_size': vec}
        if dflt:
            ckw['default_surrogate'] = _make_surrogate(dflt)
        if declare == 'setup':
            class _Sub(om.MetaModelUnStructuredComp):
                def setup(self):
                    declare_vars(self, route == 'kw')
            comp = _Sub(**ckw)
        else:
            comp = om.MetaModelUnStructuredComp(**ckw)
            declare_vars(comp, route == 'kw')
            if route == 'options-pre':
                give_options(comp)
        prob = om.Problem()
        if any(pairs):
            ivc = prob.model.add_subsystem('ivc', om.IndepVarComp())
            for j, p in enumerate(pairs):
                if p:
                    ivc.add_output('s%d' % j, np.zeros(full(in_shapes[j])), units=p[0])
        prob.model.add_subsystem('c', comp)
        for j, p in enumerate(pairs):
            if p:
                prob.model.connect('ivc.s%d' % j, 'c.' + in_names[j])
        if case['asm'] != 'none':
            prob.model.linear_solver = om.DirectSolver(assemble_jac=True)
            prob.model.options['assembled_jac_type'] = case['asm']
        prob.setup(mode=case['mode'])
        if route == 'options-post' or (declare == 'setup' and route != 'kw'):
            give_options(comp)
    except Exception as e:
        rep.viol(_exc_key('comp-layout', e, 'setup:%s:%s' % (declare, route)), str(e)[:200])
        return

    # ---- what this case visits
    arr_before_last = max(in_sizes[:-1]) > 1
    acc.count('cell:layout:%s:%s' % (vtag, 'array-before-another-input' if arr_before_last else 'offsets-coincide'))
    if sum(1 for s in in_sizes if s > 1) > 1:
        acc.count('cell:layout:several-array-inputs')
    if any(len(s) > 1 for s in in_shapes):
        acc.count('cell:layout:2d-input')
    if any(pairs):
        acc.count('cell:layout:unit-conversion-on-connection')
    if len(set(_skey(sp) for sp in specs)) > 1:
        acc.count('cell:layout:different-surrogates')
    if dflt and any(not o.get('spec') for o in outs):
        acc.count('cell:layout:default_surrogate')
    acc.count('cell:layout:data-route:' + route)
    acc.count('cell:layout:declared-in:' + declare)
    acc.count('cell:layout:totals:%s:%s' % (case['mode'], case['asm']))

    def set_point(P):
        """P (vec, d): values the component should see.  Returns what it does see by the harness's own unit table
        and the bound on the rounding of that conversion."""
        Peff = np.empty_like(P)
        dlt = np.zeros_like(P)
        for j, n in enumerate(in_names):
            q = P[:, off[j]:off[j + 1]]
            if pairs[j]:
                s = q / fac[j] - ofs[j]
                Peff[:, off[j]:off[j + 1]] = (s + ofs[j]) * fac[j]
                dlt[:, off[j]:off[j + 1]] = 16 * EPS * (np.abs(s) + abs(ofs[j])) * abs(fac[j])
                prob.set_val('ivc.s%d' % j, s.reshape(full(in_shapes[j])))
            else:
                Peff[:, off[j]:off[j + 1]] = q
                prob.set_val('c.' + n, q.reshape(full(in_shapes[j])))
        return Peff, dlt

    def get_outs():
        return [np.array(prob.get_val('c.' + n), dtype=float).reshape(vec, sz).copy()
                for n, sz in zip(out_names, out_sizes)]

    def comp_block(n, inn, so, sz):
        """the component's own sub-jacobian d n / d inn as (vec, so, vec, sz)"""
        v = comp._jacobian[n, inn]
        v = v.toarray() if hasattr(v, 'toarray') else np.array(v, dtype=float)
        info = comp._subjacs_info[('c.' + n, 'c.' + inn)]
        rows, cols = info.get('rows'), info.get('cols')
        if rows is not None and v.ndim == 1:
            full_ = np.zeros((vec * so, vec * sz))
            full_[np.asarray(rows), np.asarray(cols)] = v
            v = full_
        return v.reshape(vec, so, vec, sz)

    def compare(x, ys, tag):
        refs = []
        try:
            for sp, yy in zip(specs, ys):
                s = _make_surrogate(sp)
                s.train(x.copy(), yy.copy())
                refs.append(s)
        except Exception:
            acc.count('skip:layout:reference-surrogate-raises')
            return False
        Q = lo + rng.uniform(0.1, 0.9, (vec, d)) * (hi - lo)
        ctx = '%s:%s' % (tag, vtag)
        try:
            Qe, dlt = set_point(Q)
            prob.run_model()
            got = get_outs()
            Jc = prob.compute_totals(of=of, wrt=wrt, return_format='dict')
        except Exception as e:
            rep.viol(_exc_key('comp-layout', e, ctx), str(e)[:200])
            return False
        blocks = None
        try:
            blocks = {(n, inn): comp_block(n, inn, so, sz) for n, so in zip(out_names, out_sizes)
                      for inn, sz in zip(in_names, in_sizes)}
        except Exception:
            acc.count('skip:layout:component-jacobian-not-readable')
        rep.judged = True
        Jref, amps = [], []
        for oi, (n, so, s, sp) in enumerate(zip(out_names, out_sizes, refs, specs)):
            Jo = np.empty((vec, so, d))
            am = np.empty((vec, so))
            for r in range(vec):
                try:
                    ref = _predict(s, Qe[r])
                    Jr = np.asarray(s.linearize(Qe[r].copy()), dtype=float).reshape(so, d)
                except Exception:
                    acc.count('skip:layout:reference-surrogate-raises')
                    return False
                Jo[r] = Jr
                am[r] = _noise_amp(sp, s, ys[oi], Qe[r])
                acc.count('obs:layout:output')
                scale = np.abs(ref).max() + np.abs(ys[oi]).max()
                if ref.shape != (so,) or not np.all(np.abs(got[oi][r] - ref) <= 1e-9 * scale + 2 * np.abs(Jr) @ dlt[r]):
                    rep.viol('comp-layout:output-differs-from-predict-on-concatenated-input:%s:%s:%s' % (vtag, tag, _skey(sp)),
                             'inputs %s outputs %s row %d %s: component %s, surrogate.predict(own concatenation) %s'
                             % (in_shapes, out_shapes, r, n, got[oi][r].tolist(), ref.tolist()))
                    return True
                jscale = np.abs(Jr).max() + 1e-300
                for j, inn in enumerate(in_names):
                    mine = Jr[:, off[j]:off[j + 1]]
                    where = _layout_class(in_sizes, j)
                    acc.count('obs:layout:totals')
                    tot = np.array(Jc['c.' + n][wrt[j]], dtype=float)
                    if tot.shape != (vec * so, vec * in_sizes[j]):
                        rep.viol('comp-layout:totals-shape:%s:%s:%s' % (vtag, where, tag), '%s for %s' % (tot.shape, (vec * so, vec * in_sizes[j])))
                        return True
                    tot = tot.reshape(vec, so, vec, in_sizes[j])
                    if not np.all(np.abs(tot[r, :, r, :] - mine * fac[j]) <= 1e-9 * jscale * abs(fac[j])):
                        rep.viol('comp-layout:totals-differ-from-linearize-columns:%s:%s:%s%s:%s'
                                 % (vtag, where, tag, ':unit-conversion' if pairs[j] else '', _skey(sp)),
                                 'inputs %s (own offsets %s) row %d d%s/d%s: compute_totals %s, surrogate.linearize[:, %d:%d]'
                                 '%s %s' % (in_shapes, off, r, n, wrt[j], tot[r, :, r, :].tolist(), off[j], off[j + 1],
                                            (' * %r' % fac[j]) if pairs[j] else '', (mine * fac[j]).tolist()))
                        return True
                    for r2 in range(vec):
                        if r2 != r and np.any(tot[r, :, r2, :] != 0.0):
                            rep.viol('comp-layout:partials-couple-vec-rows:%s' % _skey(sp), 'rows %d,%d' % (r, r2))
                            return True
                    if blocks is not None:
                        acc.count('obs:layout:component-jacobian')
                        cj = blocks[n, inn]
                        if not np.all(np.abs(cj[r, :, r, :] - mine) <= 1e-9 * jscale):
                            rep.viol('comp-layout:component-jacobian-differs-from-linearize-columns:%s:%s:%s:%s'
                                     % (vtag, where, tag, _skey(sp)),
                                     'inputs %s row %d d%s/d%s: component jacobian %s, surrogate.linearize[:, %d:%d] %s'
                                     % (in_shapes, r, n, inn, cj[r, :, r, :].tolist(), off[j], off[j + 1], mine.tolist()))
                            return True
            Jref.append(Jo)
            amps.append(am)

        # ---- central differences of the component's own outputs (5-point stencil, two step sizes)
        xn, xlo, xr = S.unit_normalise(x)
        hn = np.full(vec, 1e-3)
        nnb = []
        for sp, s in zip(specs, refs):
            kind = sp['kind']
            if kind in ('rs', 'kriging'):
                nnb.append(0)
                continue
            N = (d + 1) if kind == 'nn-linear' else (5 if kind == 'nn-weighted' else int(s.interpolant.N))
            nnb.append(N)
            for r in range(vec):
                _, dist0 = S.knn(xn, (Qe[r] - xlo) / xr, N + 1)
                gap = min(dist0[0], np.min(np.diff(dist0)) if N > 1 else dist0[0])
                hn[r] = min(hn[r], 0.02 * gap / np.sqrt(d))
        mask = [np.ones((vec, d), dtype=bool) for _ in outs]
        for r in range(vec):
            if not hn[r] > 1e-7:
                hn[r] = 1e-7
                for mk_ in mask:
                    mk_[r] = False
        for oi, N in enumerate(nnb):
            if not N:
                continue
            for r in range(vec):
                pn = (Qe[r] - xlo) / xr
                idx0, _ = S.knn(xn, pn, N)
                for ax in range(d):
                    for st in (-2, -1, 1, 2):
                        ps = pn.copy()
                        ps[ax] += st * hn[r] * 1.01
                        idx, _ = S.knn(xn, ps, N)
                        if not np.array_equal(idx, idx0):
                            mask[oi][r, ax] = False
        nmask = sum(int((~mk_).sum()) for mk_ in mask)
        if nmask:
            acc.count('skip:layout:fd:neighbour-set-changes', nmask)
        for ax in range(d):
            if not any(mk_[:, ax].any() for mk_ in mask):
                continue
            j = max(jj for jj in range(len(ins)) if off[jj] <= ax)
            h = hn * xr[ax]

            def f(st):
                P = Q.copy()
                P[:, ax] += st * h
                set_point(P)
                prob.run_model()
                return get_outs()
            try:
                v1 = [f(st) for st in _STENCIL]
                v2 = [f(st / 2.0) for st in _STENCIL]
            except Exception as e:
                rep.viol(_exc_key('comp-layout', e, 'rerun:' + ctx), str(e)[:200])
                return False
            for oi, (n, so, sp) in enumerate(zip(out_names, out_sizes, specs)):
                D1 = np.tensordot(_W4, np.array([v[oi] for v in v1]), axes=(0, 0)) / h[:, None]
                D2 = np.tensordot(_W4, np.array([v[oi] for v in v2]), axes=(0, 0)) / (h[:, None] / 2)
                yscale = np.abs(ys[oi]).max() + 1e-300
                tot = np.array(Jc['c.' + n][wrt[j]], dtype=float).reshape(vec, so, vec, in_sizes[j])
                for r in range(vec):
                    if not mask[oi][r, ax]:
                        continue
                    noise = 64 * EPS * amps[oi][r] + 2 * np.abs(Jref[oi][r]) @ dlt[r]
                    tol = 2 * np.abs(D1[r] - D2[r]) + 3 * noise / (h[r] / 2)
                    if np.any(tol > 1e-4 * (np.abs(D2[r]) + yscale / xr[ax])):
                        acc.count('skip:layout:fd:unreliable')
                        continue
                    acc.count('obs:layout:fd')
                    mine = tot[r, :, r, ax - off[j]]
                    if not np.all(np.abs(mine - D2[r] * fac[j]) <= tol * abs(fac[j])):
                        rep.viol('comp-layout:totals-differ-from-central-difference-of-outputs:%s:%s:%s%s:%s'
                                 % (vtag, _layout_class(in_sizes, j), tag, ':unit-conversion' if pairs[j] else '',
                                    _skey(sp)),
                                 'inputs %s row %d d%s/d%s[%d]: compute_totals %s, central difference of the component '
                                 'output %s (tol %s)' % (in_shapes, r, n, wrt[j], ax - off[j], mine.tolist(),
                                                         (D2[r] * fac[j]).tolist(), (tol * abs(fac[j])).tolist()))
                        return True
        return True

    ok = compare(x1, ys1, 'first-training')
    if ok and not rep.bad:
        try:
            if phase2 == 'resetup':
                prob.setup(mode=case['mode'])
                if declare == 'setup' and route != 'kw':
                    give_options(comp)
                x2, ys2 = x1, ys1
            else:
                m2 = case['m'] + (int(rng.integers(1, 6)) if phase2 == 'retrain-resized' else 0)
                x2, ys2 = data(m2)
                cur['train'] = forms(x2, ys2)
                give_options(comp)
                comp.train = True
        except Exception as e:
            rep.viol(_exc_key('comp-layout', e, phase2), str(e)[:200])
            x2 = None
        if x2 is not None:
            acc.count('cell:layout:then:' + phase2)
            compare(x2, ys2, 'after-' + phase2)
    try:
        prob.cleanup()
    except Exception:
        pass
    rep.done()


# ------------------------------------------------------------------------------------------------
JUDGES = {'rs': judge_rs, 'nn': judge_nn, 'kriging': judge_kriging, 'comp': judge_comp, 'layout': judge_layout}


def judge(case, acc):
    JUDGES[case['part']](case, acc)


def _nn_specs(rng, d):
    t = str(rng.choice(['linear', 'weighted', 'rbf', 'rbf']))
    spec = {'kind': 'nn-' + t}
    if t == 'rbf':
        spec['opts'] = {'num_neighbors': int(rng.integers(max(3, d + 2), 9)),
                        'rbf_family': int(rng.choice([-2, -1, 0, 1, 2, 3, 4]))}
    return spec


def _cases(tier, seed):
    rng = np.random.default_rng(1000003 * seed + (41 if tier == 'quick' else 43))
    n = {'quick': {'rs': 40, 'nn': 90, 'kriging': 36, 'comp': 44, 'layout': 48},
         'thorough': {'rs': 500, 'nn': 1400, 'kriging': 450, 'comp': 500, 'layout': 700}}[tier]
    out = []
    sid = [0]

    def mk(part, **kw):
        sid[0] += 1
        c = {'part': part, 'seed': int(seed * 10000019 + sid[0] * 7919 + (0 if tier == 'quick' else 5000000))}
        c.update(kw)
        out.append(c)

    # directed cases: input classes that must be visited in every run (structure fixed, values random)
    mk('nn', spec={'kind': 'nn-linear'}, d=1, k=2, m=12)
    mk('nn', spec={'kind': 'nn-linear'}, d=2, k=2, m=14)
    for fam in (0, 1, 2, 3, 4):
        for dd in (1, 2, 4, 6):
            mk('nn', spec={'kind': 'nn-rbf', 'opts': {'num_neighbors': 6, 'rbf_family': fam}}, d=dd, k=1,
               m=24 if dd < 4 else 36)
    mk('comp', spec={'kind': 'nn-linear'}, vec=1, in_sizes=[1], out_sizes=[2], m=10, default_surrogate=False)
    mk('comp', spec={'kind': 'nn-weighted'}, vec=3, in_sizes=[1, 2], out_sizes=[1, 2], m=12, default_surrogate=True)

    for _ in range(n['rs']):
        d = int(rng.integers(1, 5))
        need = (d + 1) * (d + 2) // 2
        mk('rs', d=d, k=int(rng.integers(1, 4)), m=int(need + rng.integers(0, 2 * need + 1)))
    for i in range(n['nn']):
        d = int(rng.integers(1, 5))
        spec = _nn_specs(rng, d)
        if spec['kind'] == 'nn-rbf' and rng.random() < 0.3:
            d = int(rng.integers(4, 8))       # the rbf tables have separate branches up to 7 inputs
            spec = {'kind': 'nn-rbf', 'opts': {'num_neighbors': int(rng.integers(5, 10)),
                                               'rbf_family': int(rng.choice([0, 1, 2, 3, 4]))}}
        if i % 9 == 0:
            spec = {'kind': 'nn-linear'}
            d = 1 if i % 18 == 0 else d
        mk('nn', spec=spec, d=d, k=int(rng.integers(1, 4)), m=int(rng.integers(max(10, 3 * d), 41)))
    for _ in range(n['kriging']):
        d = int(rng.integers(1, 4))
        mk('kriging', spec={'kind': 'kriging', 'eval_rmse': bool(rng.random() < 0.3)}, d=d,
           k=int(rng.integers(1, 3)), m=int(rng.integers(5, 21)),
           data=str(rng.choice(['rough', 'rough', 'smooth'])))
    kinds = ['rs', 'nn-linear', 'nn-weighted', 'nn-rbf', 'kriging']
    for i in range(n['comp']):
        kind = kinds[i % len(kinds)]
        spec = {'kind': kind}
        if kind == 'nn-rbf':
            spec['opts'] = {'num_neighbors': int(rng.integers(5, 8)), 'rbf_family': int(rng.choice([-1, 1, 2]))}
        if kind == 'kriging':
            spec['eval_rmse'] = bool(rng.random() < 0.3)
        in_sizes = [[1], [1, 1], [2], [1, 2]][int(rng.integers(0, 4))]
        out_sizes = [[1], [1, 1], [2], [1, 2]][int(rng.integers(0, 4))]
        d = sum(in_sizes)
        mk('comp', spec=spec, vec=int(rng.choice([1, 3])), in_sizes=in_sizes, out_sizes=out_sizes,
           m=int(rng.integers(max(8, (d + 1) * (d + 2) // 2 + 2), 16)), default_surrogate=bool(rng.random() < 0.5))

    # ---- input-layout layer of the component
    def sur_spec(kind):
        spec = {'kind': kind}
        if kind == 'nn-rbf':
            spec['opts'] = {'num_neighbors': int(rng.integers(5, 8)), 'rbf_family': int(rng.choice([-1, 1, 2]))}
        if kind == 'kriging':
            spec['eval_rmse'] = bool(rng.random() < 0.3)
        return spec

    def layout(shapes, vec, i):
        d = sum(_size(sh) for sh in shapes)
        n_out = int(rng.choice([1, 2, 2, 3]))
        pool = [[], [], [2], [3], [2, 2]]
        outs = []
        for o in range(n_out):
            kind = kinds[(i + o * (1 + i // len(kinds))) % len(kinds)] if o else kinds[i % len(kinds)]
            outs.append({'shape': pool[int(rng.integers(0, len(pool)))],
                         'spec': None if rng.random() < 0.4 else sur_spec(kind)})
        need_default = any(o['spec'] is None for o in outs)
        dflt = sur_spec(kinds[(i + 2) % len(kinds)]) if (need_default or rng.random() < 0.2) else None
        used = [(o['spec'] or dflt)['kind'] for o in outs]
        ins = []
        for sh in shapes:
            u = rng.random()
            ins.append({'shape': sh, 'conn': str(rng.choice(sorted(UNIT_PAIRS))) if u < 0.3 else None,
                        'units': 'm' if 0.3 <= u < 0.4 else None})
        need = (d + 1) * (d + 2) // 2 if 'rs' in used else 0
        declare = 'setup' if rng.random() < 0.3 else 'static'
        route = str(rng.choice(['kw', 'kw', 'options-pre', 'options-post']))
        if declare == 'setup' and route == 'options-pre':
            route = 'options-post'
        mk('layout', vec=vec, ins=ins, outs=outs, default=dflt, m=int(max(need + 2, d + 5, 10) + rng.integers(0, 6)),
           route=route, declare=declare, phase2=str(rng.choice(['retrain', 'retrain-resized', 'resetup'])),
           mode=str(rng.choice(['fwd', 'rev'])), asm=str(rng.choice(['none', 'none', 'none', 'dense', 'csc'])))

    # directed layouts (visited in every run, both branches of the component), then random ones
    directed = [[[3], []], [[], [2], []], [[2], [3]], [[2, 2], []], [[], [2, 1], [2]], [[2], [], [], [2]]]
    i = 0
    for shapes in directed:
        for vec in (1, 3):
            layout(shapes, vec, i)
            i += 1
    shape_pool = [[], [], [], [2], [2], [3], [2, 2], [1, 2], [2, 1], [1]]
    for _ in range(n['layout']):
        while True:
            shapes = [shape_pool[int(k)] for k in rng.integers(0, len(shape_pool), int(rng.integers(2, 5)))]
            sizes = [_size(sh) for sh in shapes]
            if sum(sizes) > 6:
                continue
            if max(sizes[:-1]) == 1 and rng.random() < 0.8:
                continue            # offsets by position and by size coincide: keep only a few of those
            break
        layout(shapes, int(rng.choice([1, 1, 2, 3])), i)
        i += 1
    return out


# Wall time of the quick tier is dominated by interpreter start-up, not by the cases (all ~230 quick cases together
# need a few CPU-seconds): `import openmdao.api` (pulls in jax, coloring, ...) costs about 4x the import of the
# surrogate modules alone.  Only the component part needs openmdao.api, so its cases get their own few shards and the
# other shards never import it; the number of shards is kept small in the quick tier.
N_SHARDS = {'quick': {'core': 6, 'comp': 4}, 'thorough': {'core': 40, 'comp': 16}}


def shards(tier, seed):
    return [{'tier': tier, 'seed': seed, 'group': g, 'part': i, 'of': n}
            for g, n in sorted(N_SHARDS[tier].items()) for i in range(n)]


def run_shard(shard, acc):
    comp = shard['group'] == 'comp'
    mine = [c for c in _cases(shard['tier'], shard['seed']) if (c['part'] in ('comp', 'layout')) == comp]
    for case in mine[shard['part']::shard['of']]:
        judge(case, acc)


def run_case(case, acc):
    judge(case, acc)


def coverage_extra(tier, agg):
    c = agg['counters']
    return {'exhaustive': False,
            'kriging_condition_histogram': {k: v for k, v in sorted(c.items()) if k.startswith('kriging:cond')},
            'discarded_observations': {k: v for k, v in sorted(c.items()) if k.startswith('skip:')}}
