"""C12 - FD and complex-step approximations are faithful and side-effect free.

Monitor: the generated models (G) are made of harness components with known smooth functions
f = c + A x + B sin(x)  (implicit: r = y + beta sin(y) - f), so the exact derivative (A + B cos x) and the bounds
|B_ij| on the 2nd/3rd derivatives are known.  Partial blocks are declared with method fd/cs and a grid of
form/step/step_calc/minimum_step options (scenario `partials`, evaluated at two successive points), components
get dynamic partial coloring (`colored`, judged against an uncolored twin problem), sub-groups get `approx_totals`
(`semitotal`) and the whole model gets `approx_totals` + compute_totals (`total`).  Observed:
  * the approximated jacobian entries  vs  exact derivative, bound = Taylor truncation (documented step) + derived
    round-off;  cs: 1e-11 relative
  * the perturbations the component really receives (hook on compute/apply_nonlinear)  vs  documented step
  * colored  vs  uncolored approximation
  * histories (`hist-colored`, `hist-total`): the same colored component / approx_totals model with a driver total
    coloring approximated at successive points of very different magnitude (1e3 -> 1 -> 1e-3, zeros, sign flips),
    with check_partials / check_totals using other options in between: step data that depends on the point
    (relative step_calc) must follow the point, options of a check must not survive it
  * bitwise snapshots of the root inputs/outputs/residuals vectors around every approximation call.
"""
import copy
import os
import random

import numpy as np

from omv.core import fingerprint
from omv.kit.gmon import FailureMonitor, exc_key, tree_solvers

PROPERTY = 'C12'
LEVEL = 'exploration'
TECHNIQUE = ('runtime monitoring: approximated jacobians vs exact derivatives of known smooth functions with derived '
             'truncation/round-off bounds, observed perturbation steps vs documented step_calc semantics, colored vs '
             'uncolored twin, bitwise vector snapshots around every approximation')
RULE = ('random model specs (harness components c + A x + B sin x, explicit and implicit, nested groups, units, index '
        'chains) x scenario {partials at two points, colored partials + uncolored twin, semi-total approx_totals on a '
        'sub-group, total approx_totals} x method/form/step/step_calc/minimum_step grid x points with zero and large '
        'entries; plus HISTORIES: the same colored component (declare_coloring, options kept from declare_partials, '
        'mostly relative step_calc, half of them with ONE colored wrt variable) / the same approx_totals model with a '
        'total coloring declared on the driver (computed by Problem.get_total_coloring as the optimizers do) is '
        'approximated at 3-4 successive points of kind large (1e2..2e3) / unit / small (1e-4..1e-2) / mixed (zeros, '
        'large and small entries) / negated / same, with check_partials / check_totals calls using other fd options '
        'in between, each next to an uncolored twin; '
        'distinct = (scenario, option cells, component kinds, solver stack, point kinds); non-trivial = at least one '
        'approximated block with a nonlinear (B != 0) term was judged and all solvers reported convergence')
MIN_JUDGED = {'quick': 200, 'thorough': 5000}
REQUIRED_COUNTERS = (
    ['cell:partial:fd/%s/%s' % (f, sc) for f in ('forward', 'backward', 'central', 'default')
     for sc in ('abs', 'rel', 'rel_avg', 'rel_element', 'rel_legacy', 'default')] +
    ['cell:partial:cs', 'cell:colored:cs', 'cell:colored:implicit', 'cell:colored:options-kept-from-declare_partials',
     'obs:colored-fewer-evaluations', 'obs:colored-vs-uncolored', 'obs:restore-around-dynamic-coloring',
     'cell:group-under-complex-step', 'obs:restore-around-semitotal-approx', 'obs:restore-around-total-approx',
     'obs:restore-around-compute_totals', 'obs:group-approx-over-iterative-solver',
     'obs:group-approx-with-implicit-component', 'obs:model-totals-through-approx-group',
     'obs:bitwise-inputs', 'obs:bitwise-outputs', 'obs:bitwise-residuals', 'obs:step-observations',
     'obs:implicit-state-block', 'obs:point-2',
     # histories at points of very different magnitude (cached approximation data must follow the point)
     'obs:hist-colored-later-point', 'obs:hist-colored-rel-step-at-point-of-other-magnitude',
     'obs:hist-colored-rel-step-single-wrt', 'obs:hist-check_partials-between-linearizations',
     'cell:hist:large', 'cell:hist:unit', 'cell:hist:small', 'cell:hist:mixed', 'cell:hist:negated', 'cell:hist:same',
     'obs:total-colored-fewer-evaluations', 'obs:total-colored-vs-uncolored', 'obs:hist-total-colored-later-point',
     'obs:hist-total-colored-rel-step-at-point-of-other-magnitude', 'obs:hist-check_totals-between-gradients',
     'obs:restore-around-colored-total-approx', 'cell:total-colored:api/driver', 'cell:total-colored:api/problem'])
SHARD_TIMEOUT = {'quick': 1200, 'thorough': 5400}
ASSUMPTIONS = ['harness component functions are complex-safe and evaluated with round-off bounded by '
               '(nterms+8) eps sum|terms| (bound recomputed per case)',
               'documented defaults: fd step 1e-6 forward abs, minimum_step 1e-12, cs step 1e-40',
               'cases where a solver reports non-convergence are not judged; complex step across iterative '
               'solvers / cyclic groups is not value-judged (documented caveat), only its state restoration is',
               'no MPI / parallel FD; directional approximations (check_partials / check_totals directional=True) '
               'are left to C13 (they raise on the generated models before any state comparison is possible)',
               'histories: every point is judged with the step the documentation promises for the values at THAT '
               'point; a colored step that differs from it is attributed to the known single-wrt mechanism only if '
               'it equals the documented step of one wrt variable/element at the current point (steps of earlier '
               'points are a different mechanism: colored-rel-step-from-earlier-point); check_partials/check_totals '
               're-evaluate residuals, so only inputs and outputs are compared bitwise around them; semi-total '
               'coloring is not generated (setup rejects it); total-coloring histories use |x| <= 2e3 and relative '
               'steps <= 1e-6 so that h <= ~5e-3',
               'approximated (semi-)totals: 2nd/3rd derivative bounds of the implicit function are evaluated at the '
               'point (10% slack for the variation over the step); steps <= 1e-3']

MECHANISMS = ('rel-step-frozen-at-first-linearization', 'mixed-wrt-options', 'colored-rel-step-from-single-wrt',
              'colored-rel-step-from-earlier-point', 'colored-total-drops-approx_totals-options',
              'colored-beside-other-method',
              'colored-cs-sparsity-by-fd-with-cs-step', 'approx-group-with-implicit-comp',
              'approx-group-block-reuses-component-subjac', 'approx-group-under-assembled-jacobian',
              'approx-group-with-matrix-free-comp', 'approx-group-with-own-gradient-solver',
              'approx-group-own-newton-discards-jacobian', 'approx-model-stale-totaljac-in-own-newton')
SCENARIOS = ['partials', 'partials', 'partials', 'colored', 'colored', 'semitotal', 'semitotal', 'total']
HIST_SCENARIOS = ['hist-colored', 'hist-colored', 'hist-total']


def shards(tier, seed):
    n = 16 if tier == 'quick' else 64
    per = 24 if tier == 'quick' else 120
    nh = 8 if tier == 'quick' else 40       # histories (points of very different magnitude) per shard
    return [{'seed': seed * 1000000 + i * 10000, 'n': per, 'nh': nh, 'tier': tier} for i in range(n)]


def run_shard(shard, acc):
    for k in range(shard['n']):
        s = shard['seed'] + k
        run_case({'seed': s, 'scenario': SCENARIOS[s % len(SCENARIOS)], 'tier': shard.get('tier', 'quick')}, acc)
    for k in range(shard.get('nh', 0)):
        s = shard['seed'] + 5000 + k
        run_case({'seed': s, 'scenario': HIST_SCENARIOS[s % len(HIST_SCENARIOS)],
                  'tier': shard.get('tier', 'quick')}, acc)


class HarnessSkip(Exception):
    pass


# ----------------------------------------------------------------------------------------------------------
# observation helpers
# ----------------------------------------------------------------------------------------------------------
class Recorder:
    """hook of the harness components: records the inputs (and, for implicit components, outputs) of every
    evaluation made while `on`."""

    def __init__(self):
        self.on = False
        self.events = []
        self.first_lin = {}      # component -> (inputs, outputs) at its first linearization

    def __call__(self, ev, name, payload):
        if ev == 'pre_linearize':
            if name not in self.first_lin:
                self.first_lin[name] = payload
            return
        if self.on and ev in ('compute', 'apply_nonlinear', 'apply_out'):
            self.events.append((ev, name, payload))

    def take(self):
        ev, self.events = self.events, []
        return ev


VECS = ('inputs', 'outputs', 'residuals')


def _snap(model):
    return [np.array(getattr(model, '_' + v)._data, copy=True) for v in VECS]


def _bits(a):
    return np.ascontiguousarray(a.real if np.iscomplexobj(a) else a, dtype=float).view(np.int64)


def _cmp_snap(acc, before, after):
    """bitwise comparison of the real parts -> list of (vector name, number of differing entries, max abs diff)."""
    bad = []
    for nm, a, b in zip(VECS, before, after):
        acc.count('obs:bitwise-' + nm)
        ne = _bits(a) != _bits(b)
        if ne.any():
            bad.append((nm, int(ne.sum()), float(np.max(np.abs((a.real - b.real)[ne])))))
        if np.iscomplexobj(b) and np.any(b.imag != 0.0):
            acc.count('info:imag-residue-' + nm)
    return bad


def _restore_viols(acc, bad, K, api, case, first):
    for nm, n, mx in bad:
        acc.viol(K('restore:%s:%s' % (api, nm)),
                 '%s vector changed by %s: %d entries differ bitwise (max |diff| %.3e)' % (nm, api, n, mx),
                 case, new_case=first)
        first = False
    return first


def _exc(acc, K, where, e, case, first):
    """exception escaping the code under test on a legal input -> violation; an exception with no openmdao frame
    is a harness error and is re-raised (-> INCONCLUSIVE)."""
    from omv.kit.gmon import exc_where
    if os.environ.get('OMV_DEBUG'):
        import traceback
        traceback.print_exception(type(e), e, e.__traceback__)
    if exc_where(e) == '?':
        raise e
    try:
        key = K(exc_key(where, e), str(e))      # classifiers that also look at the message
    except TypeError:
        key = K(exc_key(where, e))
    acc.viol(key, '%s: %s' % (type(e).__name__, str(e)[:300]), case, new_case=first)


def _dense(v):
    import scipy.sparse as sp
    if sp.issparse(v):
        return v.toarray()
    return np.array(v, dtype=float)


def _points(spec, rng, second=False):
    """values of the independent variables with zero and large entries. -> {name: flat list}"""
    out = {}
    names = []
    for c in spec['comps']:
        if c['kind'] == 'ivc':
            names += [(oo, oo['shape']) for oo in c['outputs']]
    names += [(p, p['shape']) for p in spec['params']]
    for v, shp in names:
        n = int(np.prod(shp))
        base = np.asarray(v['val'], dtype=float).ravel()
        if second:
            base = np.array([round(rng.uniform(-2, 2), 3) for _ in range(n)])
        k = rng.random()
        if k < 0.15:
            base = np.zeros(n)
        elif k < 0.45:
            for j in range(n):
                r = rng.random()
                if r < 0.3:
                    base[j] = 0.0
                elif r < 0.5:
                    base[j] = round(rng.choice([-1, 1]) * 10 ** rng.uniform(1, 3.3), 2)
        out[v['name']] = base.tolist()
    return out


HIST_KINDS = ('large', 'unit', 'small', 'mixed')


def _hist_points(spec, rng, npts, max_exp=3.3):
    """A history of points of very different magnitude for the independent variables.
    -> (list of {name: flat list}, list of kinds).  Successive points differ in kind, except for 'negated' (the
    previous point with all signs flipped: relative steps must not change) and 'same' (legitimate cache reuse)."""
    names = []
    for c in spec['comps']:
        if c['kind'] == 'ivc':
            names += [(oo['name'], int(np.prod(oo['shape']))) for oo in c['outputs']]
    names += [(p['name'], int(np.prod(p['shape']))) for p in spec['params']]
    pts, kinds = [], []
    for t in range(npts):
        r = rng.random()
        if t > 0 and r < 0.12:
            kinds.append('negated')
            pts.append({k: (-np.asarray(v)).tolist() for k, v in pts[-1].items()})
            continue
        if t > 0 and r < 0.2:
            kinds.append('same')
            pts.append({k: list(v) for k, v in pts[-1].items()})
            continue
        prev = [k for k in kinds if k in HIST_KINDS][-1:] or [None]
        kind = rng.choice([k for k in HIST_KINDS if k != prev[0]])
        pt = {}
        for nm, n in names:
            base = np.array([round(rng.choice([-1, 1]) * rng.uniform(0.3, 2.0), 3) for _ in range(n)])
            if kind == 'large':
                base = np.round(base * 10 ** rng.uniform(2.0, max_exp), 2)
            elif kind == 'small':
                base = base * 10 ** -rng.uniform(2.0, 4.0)
            elif kind == 'mixed':
                for j in range(n):
                    q = rng.random()
                    if q < 0.3:
                        base[j] = 0.0
                    elif q < 0.55:
                        base[j] = round(base[j] * 10 ** rng.uniform(2.0, max_exp), 2)
                    elif q < 0.75:
                        base[j] = base[j] * 10 ** -rng.uniform(2.0, 4.0)
            if rng.random() < 0.08:
                base = np.zeros(n)          # (relative steps fall back to minimum_step)
            pt[nm] = base.tolist()
        kinds.append(kind)
        pts.append(pt)
    return pts, kinds


def _apply_points(spec, pts):
    for c in spec['comps']:
        if c['kind'] == 'ivc':
            for oo in c['outputs']:
                oo['val'] = np.asarray(pts[oo['name']]).reshape(oo['shape']).tolist()
    for p in spec['params']:
        p['val'] = np.asarray(pts[p['name']]).reshape(p['shape']).tolist()


def _set_points(prob, spec, pts):
    from omv.gen import models as G
    for c in spec['comps']:
        if c['kind'] == 'ivc':
            for oo in c['outputs']:
                prob.set_val(G.top_name(spec, oo['name']), np.asarray(pts[oo['name']]).reshape(oo['shape']))
    used = set(cn['src'] for cn in spec['conns'] if cn.get('how') == 'param')
    for p in spec['params']:
        if p['name'] in used:
            prob.set_val(p['name'], np.asarray(pts[p['name']]).reshape(p['shape']))


def _nonlinear(c):
    return any(np.any(np.asarray(B) != 0) for t in c['terms'].values() for B in t['B'].values())


# ----------------------------------------------------------------------------------------------------------
# component partial blocks: exact values, bounds, observed steps
# ----------------------------------------------------------------------------------------------------------
def _comp_state(comp, c):
    x = {i['name']: np.array(comp._inputs[i['name']], dtype=float).ravel() for i in c['inputs']}
    y = {o['name']: np.array(comp._outputs[o['name']], dtype=float).ravel() for o in c['outputs']}
    r = {o['name']: np.array(comp._residuals[o['name']], dtype=float).ravel() for o in c['outputs']}
    return x, y, r


def _wrt_opts(c):
    """{wrt var: opts} for wrts whose approximated blocks all share one option set; others -> None (mixed)."""
    cfg = c.get('c12') or {}
    res = {}
    for key, o in cfg.get('blocks', {}).items():
        k = key.split('|')[1]
        if k in res and res[k] != o:
            res[k] = None
        elif k not in res:
            res[k] = o
    for o_, o in cfg.get('self', {}).items():
        res[o_] = o
    for key, o in cfg.get('xblocks', {}).items():
        res.setdefault(key.split('|')[1], o)
    return res


def _effective_opts(comp, k):
    """white box: the options OpenMDAO really registered for wrt variable k of this component."""
    abs_wrt = comp.pathname + '.' + k
    for m_, sch in comp._approx_schemes.items():
        meta = sch._wrt_meta.get(abs_wrt)
        if meta is not None:
            return {'method': m_, 'form': meta.get('form'), 'step': meta.get('step'),
                    'step_calc': meta.get('step_calc'), 'minimum_step': meta.get('minimum_step')}
    return None


def _norm_opts(kit, o):
    if o['method'] == 'cs':
        return ('cs', o.get('step') or kit.CS_DEFAULT_STEP)
    ms = o.get('minimum_step')
    return ('fd', kit.eff_form(o), o.get('step') or kit.FD_DEFAULT_STEP, o.get('step_calc') or 'abs',
            kit.DEFAULT_MIN_STEP if ms is None else ms)


def _sparsity_lost(comp, c):
    """white box (classification only): the dynamic coloring of the component was computed from a sparsity with
    fewer nonzeros than the structural pattern of the colored blocks (entries outside it are never written)."""
    col = getattr(comp._coloring_info, 'coloring', None)
    if col is None:
        return False
    cfg = c['c12']
    exp = 0
    for key in cfg.get('blocks', {}):
        o_, k = key.split('|')
        t = c['terms'][o_]
        P = None
        for d in (t['A'], t['B']):
            if k in d:
                nz = np.asarray(d[k], dtype=float) != 0
                P = nz if P is None else (P | nz)
        exp += int(P.sum()) if P is not None else 0
    for o_ in cfg.get('self', {}):
        exp += len(c['terms'][o_]['c'])
    try:
        return len(col._nzrows) < exp
    except Exception:
        return False


def _judge_comp(kit, c, comp, st, events, frozen_x, out, colored=False, jac_src=None, tag='', earlier=None,
                diag=None):
    """Judge all approximated blocks of one component.  st = (x, y, r) before the approximation.
    out: list collecting (keypart, observable, message).  A diagnosed mechanism is only named when it is
    confirmed by observation: the perturbations the component really received (hook) or, for mixed declarations,
    the options OpenMDAO registered for the wrt variable."""
    x, y, rcur = st
    imp = c['kind'] == 'imp'
    cfg = c['c12']
    ev = kit.comp_eval(c, x, y if imp else None)
    beta = c.get('beta', 0.0)
    stale, E = {}, {}
    for o in y:
        f = ev[o]['f']
        rtrue = (y[o] + beta * np.sin(y[o]) - f) if imp else (f - y[o])
        stale[o] = np.abs(rcur[o] - rtrue)
        E[o] = ev[o]['E']
    wopts = _wrt_opts(c)
    ncells = []
    cand = []     # colored approximations: steps that a single wrt variable / element would give AT THIS POINT
    cand_old = []  # ... and the steps the wrt variables had at EARLIER linearization points (a stale cache)
    if colored:
        o = ([o_ for o_ in wopts.values() if o_] or [None])[0]
        for var in list(x) + list(y):       # declare_coloring declares every (of, wrt) pair of the component
            if o and o['method'] == 'fd' and (o.get('step_calc') or 'abs') != 'abs':
                cand += list(kit.doc_step(o, y[var] if var in y else x[var]))
                for xe, ye in (earlier or []):
                    cand_old += list(kit.doc_step(o, ye[var] if var in ye else xe[var]))
        cand = sorted(set(float(h) for h in cand))
        cand_old = sorted(set(float(h) for h in cand_old) - set(cand))
    # ---- observed perturbations ----------------------------------------------------------------------------
    nobs = 0
    base = dict(x)
    base.update(y)
    merged = []
    pend = None
    for evn, name, payload in events:
        if name != c['name']:
            continue
        if evn == 'apply_out':
            pend = payload
        elif evn == 'apply_nonlinear':
            d = dict(payload)
            d.update(pend or {})
            pend = None
            merged.append(d)
        else:
            merged.append(payload)
    obs_h = {}        # var -> observed |step| per entry (nan: not observed)
    confirmed = {}    # var -> mechanisms confirmed by the observed perturbations
    for d in merged:
        for var, arr in d.items():
            if var not in base:
                continue
            diff = np.asarray(arr).ravel() - base[var]
            for j in np.nonzero(diff)[0]:
                opts = wopts.get(var)
                if opts is None:
                    continue
                obs_h.setdefault(var, np.full(base[var].size, np.nan))[j] = abs(diff[j])
                h = kit.doc_step(opts, base[var])[j]
                exp = kit.expected_deltas(opts, h)
                tol = 2.0 * kit.EPS * (abs(base[var][j]) + h)
                nobs += 1
                if not any(abs(diff[j] - e) <= tol for e in exp):
                    why = ''
                    if colored and any(abs(diff[j] - e) <= 2.0 * kit.EPS * (abs(base[var][j]) + hc)
                                       for hc in cand for e in kit.expected_deltas(opts, hc)):
                        why = 'colored-rel-step-from-single-wrt'
                    if not why and colored and any(abs(diff[j] - e) <= 2.0 * kit.EPS * (abs(base[var][j]) + hc)
                                                   for hc in cand_old for e in kit.expected_deltas(opts, hc)):
                        # the step belongs to the values the wrt variables had at an earlier linearization
                        why = 'colored-rel-step-from-earlier-point'
                    if not why and frozen_x is not None and (opts.get('step_calc') or 'abs') != 'abs':
                        xf = frozen_x[1][var] if var in y else frozen_x[0][var]
                        hf = kit.doc_step(opts, xf)[j]
                        if any(abs(diff[j] - e) <= 2.0 * kit.EPS * (abs(base[var][j]) + hf)
                               for e in kit.expected_deltas(opts, hf)):
                            why = 'rel-step-frozen-at-first-linearization'
                    if why:
                        confirmed.setdefault(var, set()).add(why)
                    if not tag:
                        out.append((why or kit.cell_of(opts), 'step-size',
                                    '%s[%d] perturbed by %r, documented %r (x=%r, vector %s) opts %s' %
                                    (var, j, complex(diff[j]) if np.iscomplexobj(diff) else float(diff[j]), exp,
                                     float(base[var][j]), np.round(base[var], 6).tolist(), opts)))
    # ---- values ---------------------------------------------------------------------------------------------
    blocks = [(key.split('|')[0], key.split('|')[1], o) for key, o in cfg.get('blocks', {}).items()]
    blocks += [(o_, o_, o) for o_, o in cfg.get('self', {}).items()]
    blocks += [(key.split('|')[0], key.split('|')[1], o) for key, o in cfg.get('xblocks', {}).items()]
    for o_, k, opts in blocks:
        is_self = (k == o_)
        xk = y[o_] if is_self else x[k]
        if is_self:
            D = np.diag(1.0 + beta * np.cos(xk))
            M = np.diag(np.full(xk.size, abs(beta)))
        else:
            D, M = kit.block_exact(c, o_, k, xk)
            if imp:
                D = -D
        try:
            J = _dense(jac_src[o_, k] if jac_src is not None else comp._jacobian[o_, k])
        except Exception as e:   # noqa
            out.append((kit.cell_of(opts), 'jacobian-read:' + type(e).__name__, str(e)[:200]))
            continue
        if J.shape != D.shape:
            out.append((kit.cell_of(opts), 'shape', 'block %s|%s has shape %s, expected %s' %
                        (o_, k, J.shape, D.shape)))
            continue
        mixed = wopts.get(k) is None
        cell = kit.cell_of(opts)
        ncells.append((cell, bool(M.any()), is_self))
        h = kit.doc_step(opts, xk)
        form = kit.eff_form(opts)
        if form == 'cs':
            bound = np.full(D.shape, kit.cs_bound(D))
            T = R = np.zeros(D.shape)
        else:
            # stale: measured inconsistency |stored residual - r(inputs, outputs)| of the base state (an outer
            # iterative solver leaves it at its tolerance); one-sided forms use the stored residual as f(x)
            bound, T, R = kit.fd_bound(form, h, M, D, xk, E[o_], stale[o_])
        err = np.abs(J - D)
        if diag is not None:
            # structural nonzeros that an approximation at this point cannot tell from zero (|D| within 10 bounds)
            if is_self:
                P = np.eye(xk.size, dtype=bool)
            else:
                P = np.zeros(D.shape, dtype=bool)
                for d_ in (c['terms'][o_]['A'], c['terms'][o_]['B']):
                    if k in d_:
                        P |= np.asarray(d_[k], dtype=float) != 0
            if np.any(P & ~(np.abs(D) > 10.0 * bound)):
                diag['weak'] = True
        if not np.all(np.isfinite(J)) or np.any(err > bound):
            i, j = np.unravel_index(np.argmax(np.where(np.isfinite(err), err / bound, np.inf)), err.shape)
            why = ''
            if colored and form == 'cs' and opts.get('step') and (J[i, j] == 0.0 or _sparsity_lost(comp, c)):
                why = 'colored-cs-sparsity-by-fd-with-cs-step'
            if not why and form != 'cs' and confirmed.get(k) and k in obs_h:
                # explained by the steps that were REALLY applied to this variable (observed by the hook)?
                ho = np.where(np.isnan(obs_h[k]), h, obs_h[k])
                bo, _, _ = kit.fd_bound(form, ho, M, D, xk, E[o_], stale[o_])
                if np.all(err <= bo):
                    why = sorted(confirmed[k])[0]
            if not why and mixed:
                eff = _effective_opts(comp, k)
                if eff is not None and _norm_opts(kit, eff) != _norm_opts(kit, opts):
                    # OpenMDAO registered other options for this wrt than this block declared: explained by them?
                    fe = kit.eff_form(eff)
                    if fe == 'cs':
                        be = np.full(D.shape, kit.cs_bound(D))
                    else:
                        be, _, _ = kit.fd_bound(fe, kit.doc_step(eff, xk), M, D, xk, E[o_], stale[o_])
                    if np.all(err <= be):
                        why = 'mixed-wrt-options:' + cell
            out.append((why or cell, 'value' + tag,
                        'd %s/d %s [%d,%d]: approx %.12g exact %.12g |err| %.3e > bound %.3e (trunc %.2e, roundoff '
                        '%.2e, documented h %.3e, x %.6g) opts %s' %
                        (o_, k, i, j, J[i, j], D[i, j], err[i, j], bound[i, j], T[i, j], R[i, j], h[j], xk[j],
                         opts)))
    if jac_src is not None:
        return ncells, nobs, len(merged)
    # blocks that stay analytic must hold the exact value although approximated columns were written over them
    for key, stl in c['styles'].items():
        if key in cfg.get('blocks', {}) or key in cfg.get('xblocks', {}) or stl in ('matfree',):
            continue
        o_, k = key.split('|')
        D, _ = kit.block_exact(c, o_, k, x[k])
        if imp:
            D = -D
        try:
            J = _dense(comp._jacobian[o_, k])
        except Exception:
            continue
        if J.shape == D.shape and np.any(np.abs(J - D) > 1e-12 * max(1.0, np.abs(D).max())):
            if stl in ('rowcol',) and c.get('extra_nz'):
                continue
            out.append(('analytic-block-sharing-wrt', 'value', 'analytic block %s differs from exact by %.3e' %
                        (key, np.abs(J - D).max())))
    return ncells, nobs, len(merged)


# ----------------------------------------------------------------------------------------------------------
# decoration of specs
# ----------------------------------------------------------------------------------------------------------
def _decorate_partials(kit, spec, rng):
    for c in spec['comps']:
        if c['kind'] == 'ivc' or c.get('matfree'):
            continue
        blocks, selfb = {}, {}
        for inp in c['inputs']:
            k = inp['name']
            ofs = [o for o, t in c['terms'].items() if k in t['A'] or k in t['B']]
            if not ofs or rng.random() < 0.25:
                continue
            opt = kit.rand_opts(rng)
            mine = []
            for o in ofs:
                if len(ofs) > 1 and rng.random() < 0.2:
                    continue          # an analytic block sharing the wrt with approximated ones
                blocks['%s|%s' % (o, k)] = dict(opt)
                mine.append(o)
            if len(mine) >= 2 and rng.random() < 0.08:
                # different options for two blocks with the same wrt (each judged against its own declaration)
                blocks['%s|%s' % (mine[0], k)] = kit.rand_opts(rng)
        if c['kind'] == 'imp':
            for oo in c['outputs']:
                if rng.random() < 0.5:
                    selfb[oo['name']] = kit.rand_opts(rng)
        order = list(blocks)
        rng.shuffle(order)
        for key in blocks:
            c['styles'][key] = blocks[key]['method']
        c['c12'] = {'blocks': blocks, 'self': selfb, 'order': order}


def _sparsify(c, rng):
    """thin out the coefficient patterns of a component (keeps >= 1 entry per block)."""
    for o, t in c['terms'].items():
        m = len(t['c'])
        for k in set(t['A']) | set(t['B']):
            n = np.asarray(t['A'].get(k, t['B'].get(k))).shape[1]
            kind = rng.random()
            if kind < 0.4 and m > 1 and n > 1:
                P = np.zeros((m, n), dtype=bool)
                sh = rng.randrange(n)
                for i in range(m):
                    P[i, (i + sh) % n] = True
            else:
                P = np.array([[rng.random() < 0.3 for _ in range(n)] for _ in range(m)])
            if not P.any():
                P[rng.randrange(m), rng.randrange(n)] = True
            for d in (t['A'], t['B']):
                if k in d:
                    a = np.asarray(d[k], dtype=float)
                    a = np.where(P, np.where(a == 0, 0.05, a), 0.0)
                    d[k] = a.tolist()


def _decorate_colored(kit, spec, rng, hist=False):
    cands = [c for c in spec['comps'] if c['kind'] != 'ivc' and not c.get('matfree')]
    rng.shuffle(cands)
    chosen = cands[:rng.randint(1, min(2, len(cands)))]
    for c in cands:
        c['c12'] = {'blocks': {}, 'self': {}, 'order': []}
    for c in chosen:
        _sparsify(c, rng)
        imp = c['kind'] == 'imp'
        ins = [i['name'] for i in c['inputs']]
        if hist:
            # histories: mostly relative steps kept from declare_partials (the step data depends on the point)
            keep = rng.random() < 0.85
            opt = kit.rand_opts(rng, method='fd' if keep else None, rel=keep, small_steps=False)
            if keep and opt.get('step_calc') in (None, 'abs') and rng.random() < 0.85:
                opt['step_calc'] = rng.choice(['rel', 'rel_avg', 'rel_legacy', 'rel_element'])
                opt['minimum_step'] = rng.choice([None, None, 1e-9, 1e-6])
            if not keep:
                opt = {k: v for k, v in opt.items() if k in ('method', 'form', 'step')}
            if not imp and rng.random() < 0.5:
                # ONE colored wrt variable: with rel / rel_avg / rel_legacy the colored step is the documented one
                wrts = [rng.choice(ins)]
                wrt_pat = list(wrts) if len(ins) > 1 else '*'
            elif rng.random() < 0.7 or len(ins) == 1:
                wrt_pat, wrts = '*', list(ins)
            else:
                wrts = sorted(rng.sample(ins, rng.randint(1, len(ins) - 1)))
                wrt_pat = list(wrts)
        else:
            keep = rng.random() < 0.3          # options come from earlier declare_partials; coloring leaves them
            opt = kit.rand_opts(rng, rel=keep, small_steps=False)
            if not keep:
                opt = {k: v for k, v in opt.items() if k in ('method', 'form', 'step')}
            if rng.random() < 0.7 or len(ins) == 1:
                wrt_pat, wrts = '*', list(ins)
            else:
                wrts = sorted(rng.sample(ins, rng.randint(1, len(ins) - 1)))
                wrt_pat = list(wrts)
        col = {'wrt': wrt_pat, 'method': opt['method'], 'show_summary': False, 'show_sparsity': False,
               'num_full_jacs': rng.choice([1, 2, 3]), 'min_improve_pct': rng.choice([0.0, 5.0])}
        if rng.random() < 0.3:
            col['perturb_size'] = rng.choice([1e-6, 1e-3])
        if not keep:
            for k_ in ('form', 'step'):
                if opt.get(k_) is not None:
                    col[k_] = opt[k_]
        blocks = {}
        for o, t in c['terms'].items():
            for k in wrts:
                if k in t['A'] or k in t['B']:
                    blocks['%s|%s' % (o, k)] = dict(opt)
                    c['styles']['%s|%s' % (o, k)] = opt['method']
        selfb = {}
        if imp and wrt_pat == '*':
            selfb = {oo['name']: dict(opt) for oo in c['outputs']}
        if not blocks and not selfb:
            continue
        xblocks = {}
        if hist and len(wrts) < len(ins) and rng.random() < 0.5:
            # other inputs of the colored component are approximated too, uncolored, mostly with the OTHER method
            other = 'cs' if opt['method'] == 'fd' else 'fd'
            for k in ins:
                if k in wrts:
                    continue
                ofs = [o for o, t in c['terms'].items() if k in t['A'] or k in t['B']]
                if not ofs or rng.random() < 0.3:
                    continue
                o2 = kit.rand_opts(rng, method=rng.choice([other, other, opt['method']]), small_steps=False)
                for o in ofs:
                    xblocks['%s|%s' % (o, k)] = dict(o2)
                    c['styles']['%s|%s' % (o, k)] = o2['method']
        c['c12'] = {'blocks': blocks, 'self': selfb, 'order': sorted(blocks), 'coloring': col,
                    'via_coloring_only': not keep, 'keep': keep, 'xblocks': xblocks}
        if keep:
            c['c12']['predeclare'] = ['*' if wrt_pat == '*' else wrts, dict(opt)]
    chosen = [c['name'] for c in chosen if c['c12'].get('coloring')]
    if not chosen:
        raise HarnessSkip('no-colorable-block')
    return chosen


def _group_nodes(tree, path=()):
    out = []
    for ch in tree['children']:
        if 'group' in ch:
            p = path + (ch['group'],)
            out.append((p, ch))
            out += _group_nodes(ch, p)
    return out


def _members(node):
    if 'comp' in node:
        return [node['comp']]
    r = []
    for ch in node['children']:
        r += _members(ch)
    return r


def _single_pass_ok(spec, node):
    from omv.gen.models import comp_graph
    edges, _ = comp_graph(spec)

    def walk(n):
        if 'comp' in n:
            return True
        kids = n['children']
        mem = [set(_members(k)) for k in kids]
        if n.get('nl', {}).get('type', 'runonce') == 'runonce':
            for a, b in edges:
                ia = [i for i, m in enumerate(mem) if a in m]
                ib = [i for i, m in enumerate(mem) if b in m]
                if ia and ib and ia[0] > ib[0]:
                    return False
        return all(walk(k) for k in kids)
    return walk(node)


def _sub_solvers(node):
    out = []

    def walk(n):
        if 'comp' in n:
            return
        out.append((n.get('nl', {}).get('type'), bool(n.get('cyclic'))))
        for ch in n['children']:
            walk(ch)
    walk(node)
    return out


# ----------------------------------------------------------------------------------------------------------
# reference for (semi-)totals: exact jacobian and bounds on 2nd / 3rd derivative of the implicit function
# ----------------------------------------------------------------------------------------------------------
def _total_ref(kit, fm, u, p, iterative):
    """-> S (nstate x nparam), M2, M3 (same shape: bounds on the 2nd/3rd derivative of state i wrt parameter j
    along e_j), eu (nstate: bound on the error of a converged state)."""
    Ju, Jp = fm.jac(u, p)
    N = np.linalg.inv(Ju) if fm.nstate else np.zeros((0, 0))
    S = -N @ Jp
    aN = np.abs(N)
    ns, npar = fm.nstate, fm.nparam
    q2 = np.zeros((ns, npar))
    rho = np.zeros(ns)
    rows = []    # (state rows slice, comp, output name)
    for c in fm.spec['comps']:
        if c['kind'] == 'ivc':
            continue
        xs = {i['name']: fm.input_value(i['name'], u, p) for i in c['inputs']}
        ys = {o['name']: u[slice(*fm.soff[o['name']])] for o in c['outputs']}
        ev = kit.comp_eval(c, xs, ys if c['kind'] == 'imp' else None)
        for oo in c['outputs']:
            o = oo['name']
            a, b = fm.soff[o]
            rho[a:b] = 2.0 * ev[o]['E'] + 2.0 * kit.EPS * np.abs(ys[o]) + (1e-15 if c['kind'] == 'imp' else 0.0) \
                + (1e-11 if iterative else 0.0)
            rows.append((a, b, c, o))

    def dx(k):
        """d x_k / d p  (n_k x npar) and its flat source rows."""
        src, pos, fac, offs = fm.wire[k]
        if src in fm.soff:
            sa, _ = fm.soff[src]
            return fac * S[sa + pos, :], ('s', sa + pos, fac)
        pa, _ = fm.poff[src]
        d = np.zeros((pos.size, npar))
        d[np.arange(pos.size), pa + pos] = fac
        return d, ('p', None, fac)
    for a, b, c, o in rows:
        t = c['terms'][o]
        for k, B in t['B'].items():
            d1, _ = dx(k)
            q2[a:b, :] += np.abs(np.asarray(B)) @ (d1 * d1)
        if c['kind'] == 'imp':
            q2[a:b, :] += abs(c['beta']) * S[a:b, :] ** 2
    M2 = aN @ q2
    q3 = np.zeros((ns, npar))
    for a, b, c, o in rows:
        t = c['terms'][o]
        for k, B in t['B'].items():
            d1, (kind, srows, fac) = dx(k)
            d2 = abs(fac) * M2[srows, :] if kind == 's' else np.zeros_like(d1)
            q3[a:b, :] += np.abs(np.asarray(B)) @ (np.abs(d1) ** 3 + 3.0 * np.abs(d1) * d2)
        if c['kind'] == 'imp':
            q3[a:b, :] += abs(c['beta']) * (np.abs(S[a:b, :]) ** 3 + 3.0 * np.abs(S[a:b, :]) * M2[a:b, :])
    M3 = aN @ q3
    eu = aN @ rho
    return S, M2, M3, eu


def _total_bound(kit, form, hcol, Sblk, M2blk, M3blk, eu_rows, pcol):
    """bound for a block of rows x columns; hcol, pcol (ncol,)."""
    if form == 'cs':
        b = np.full(Sblk.shape, kit.cs_bound(Sblk))
        return b, np.zeros(Sblk.shape), np.zeros(Sblk.shape)
    h = np.asarray(hcol, dtype=float)[None, :]
    if form in ('forward', 'backward'):
        T = 1.1 * 0.5 * M2blk * h
    else:
        T = 1.1 * M3blk * h * h / 6.0
    R = (2.0 * eu_rows[:, None] + kit.EPS * (np.abs(pcol)[None, :] + h) * np.abs(Sblk)) / h
    return T + 4.0 * R, T, R


# ----------------------------------------------------------------------------------------------------------
# scenarios
# ----------------------------------------------------------------------------------------------------------
class _Deadline(BaseException):
    pass


CASE_DEADLINE = 180      # seconds; a case normally takes 1-3 s


def run_case(case, acc):
    import signal
    np.random.seed(case['seed'] % (2 ** 31))     # OpenMDAO's sparsity perturbations use the global numpy RNG
    scen = case['scenario']

    def _alarm(sig, frm):
        raise _Deadline()
    # nested iterative linear solvers fed with a non-finite approximated jacobian run maxiter^depth sweeps:
    # such a case is abandoned (counted as a guard, never a verdict)
    old = signal.signal(signal.SIGALRM, _alarm)
    signal.alarm(CASE_DEADLINE)
    try:
        {'partials': _run_partials, 'colored': _run_colored, 'semitotal': _run_group,
         'total': _run_group, 'hist-colored': _run_colored_hist, 'hist-total': _run_total_hist}[scen](case, acc)
    except HarnessSkip as e:
        acc.skip(str(e))
    except _Deadline:
        acc.skip('case-deadline-exceeded')
    finally:
        signal.alarm(0)
        signal.signal(signal.SIGALRM, old)


def _gen_spec(case, **over):
    from omv.gen import models as G
    rng = random.Random(case['seed'])
    o = dict(p_approx=0.0, p_matfree=0.0, p_sparse=0.4, p_implicit=0.35, p_cycle=0.3, p_units=0.4, p_index=0.5,
             max_comps=4, solver_mix='runonce' if rng.random() < 0.6 else 'any')
    o.update(over)
    spec = G.gen_spec(rng, o)
    _apply_points(spec, _points(spec, rng))
    return spec, rng


def _report(acc, case, scen, out, first):
    """out: list of (keypart, observable, message) -> violations (at most 4 distinct keys per case)."""
    seen = set()
    for keypart, obs, msg in out:
        if keypart.startswith(MECHANISMS):
            key = '%s:%s:%s' % (keypart, scen, obs)      # diagnosed mechanism first (known-finding patterns)
        else:
            key = '%s:%s:%s' % (scen, keypart, obs)
        if key in seen or len(seen) >= 4:
            continue
        seen.add(key)
        acc.viol(key, msg, case, new_case=first)
        first = False
    return first


def _run_partials(case, acc):
    from omv.gen import models as G
    from omv.gen import c12_kit as kit
    spec, rng = _gen_spec(case)
    _decorate_partials(kit, spec, rng)
    comps = [c for c in spec['comps'] if c.get('c12') and (c['c12']['blocks'] or c['c12']['self'])]
    if not comps:
        raise HarnessSkip('no-approximated-block')
    pts2 = _points(spec, rng, second=True)
    rec = Recorder()
    methods = sorted(set(o['method'] for c in comps for o in list(c['c12']['blocks'].values()) +
                         list(c['c12']['self'].values())))

    def K(what):
        return 'partials:%s:%s' % (what, '+'.join(methods))
    first = True
    cells, nobs_tot = [], 0
    with FailureMonitor() as fmon:
        try:
            prob = G.build(spec, hook=rec, comp_factory=kit.comp_factory)
            prob.setup(mode=rng.choice(['fwd', 'rev']))
        except Exception as e:
            _exc(acc, K, 'setup', e, case, first)
            return
        for pt in (1, 2):
            scen = 'partials' if pt == 1 else 'partials-pt2'
            try:
                if pt == 2:
                    _set_points(prob, spec, pts2)
                prob.run_model()
            except Exception as e:
                _exc(acc, K, 'run_model', e, case, first)
                prob.cleanup()
                return
            if fmon.failures:
                break
            sysm = {c['name']: prob.model._get_subsystem(spec['path'][c['name']]) for c in comps}
            states = {c['name']: _comp_state(sysm[c['name']], c) for c in comps}
            before = _snap(prob.model)
            rec.on = True
            try:
                prob.model.run_linearize()
            except Exception as e:
                rec.on = False
                _exc(acc, K, 'run_linearize', e, case, first)
                prob.cleanup()
                return
            rec.on = False
            events = rec.take()
            first = _restore_viols(acc, _cmp_snap(acc, before, _snap(prob.model)), K, 'run_linearize', case, first)
            out = []
            for c in comps:
                nc, nobs, nev = _judge_comp(kit, c, sysm[c['name']], states[c['name']], events,
                                            rec.first_lin.get(c['name']), out)
                cells += nc
                nobs_tot += nobs
            first = _report(acc, case, scen, out, first)
            # a second API that triggers the approximations: compute_totals (state restoration only)
            if pt == 2:
                # (after all judgements: compute_totals narrows the relevant sub-jacobians)
                before = _snap(prob.model)
                import signal
                left = signal.alarm(30)      # (deeply nested iterative linear solvers can take minutes here)
                try:
                    try:
                        prob.compute_totals(of=[G.top_name(spec, o) for o in spec['of']],
                                            wrt=[G.top_name(spec, w) for w in spec['wrt']])
                    finally:
                        signal.alarm(max(1, left - 30) if left else 0)
                    acc.count('obs:restore-around-compute_totals')
                    first = _restore_viols(acc, _cmp_snap(acc, before, _snap(prob.model)), K, 'compute_totals',
                                           case, first)
                except _Deadline:
                    acc.count('skip-obs:compute_totals-deadline')
                except Exception as e:
                    _exc(acc, K, 'compute_totals', e, case, first)
                    first = False
            acc.count('obs:point-%d' % pt)
        failed = list(fmon.failures)
    prob.cleanup()
    if failed and first:
        acc.skip('solver-nonconvergence')
        return
    for cell, nonlin, is_self in cells:
        acc.count('cell:partial:' + cell)
        if is_self:
            acc.count('obs:implicit-state-block')
    acc.count('obs:step-observations', nobs_tot)
    if any(c['kind'] == 'imp' for c in comps):
        acc.count('obs:implicit-component')
    if first:
        acc.ok(fingerprint(['partials', sorted(set(c_ for c_, _, _ in cells)), sorted(c['kind'] for c in comps),
                            tree_solvers(spec)]),
               nontrivial=any(nl for _, nl, _ in cells),
               sample={'seed': case['seed'], 'scenario': 'partials',
                       'blocks': {c['name']: c['c12']['blocks'] for c in comps[:2]}})


def _twin(spec):
    sp = copy.deepcopy(spec)
    for c in sp['comps']:
        cfg = c.get('c12')
        if cfg and cfg.get('coloring'):
            cfg['coloring'] = None
            cfg['via_coloring_only'] = False
    return sp


def _run_colored_hist(case, acc):
    return _run_colored(case, acc, hist=True)


def _check_partials_between(prob, rng_state, comps):
    """history operation: Problem.check_partials with other fd options than the declared ones (they are used for
    the check only and must not survive it)."""
    r = random.Random(rng_state)
    kw = {'method': 'fd', 'form': r.choice(['forward', 'backward', 'central']), 'step': r.choice([1e-2, 1e-5, 1e-7]),
          'step_calc': r.choice(['abs', 'rel_avg', 'rel_element'])}
    try:
        prob.check_partials(out_stream=None, includes=['*' + c['name'] for c in comps], **kw)
    except Exception as e:
        # checking with exactly the method and options in force is a documented error
        # (OMInvalidCheckDerivativesOptionsWarning has filter 'error'): not an operation of the history
        if type(e).__name__ == 'OMInvalidCheckDerivativesOptionsWarning':
            return None
        raise
    return kw


def _run_colored(case, acc, hist=False):
    from omv.gen import models as G
    from omv.gen import c12_kit as kit
    if hist:
        spec, rng = _gen_spec(case, max_comps=3, p_sparse=0.2, solver_mix='runonce' if case['seed'] % 4 else 'any')
    else:
        spec, rng = _gen_spec(case, max_comps=3, p_sparse=0.2, solver_mix='runonce' if case['seed'] % 3 else 'any')
    chosen = _decorate_colored(kit, spec, rng, hist=hist)
    comps = [c for c in spec['comps'] if c['name'] in chosen]
    hp, kinds = [None], ['initial']
    if hist:
        hp, kinds = _hist_points(spec, rng, rng.choice([3, 3, 4]))
        _apply_points(spec, hp[0])
    rec, rec2 = Recorder(), Recorder()
    methods = sorted(set(c['c12']['coloring']['method'] for c in comps))

    cs_step_imp = any(c['kind'] == 'imp' and any(o['method'] == 'cs' and o.get('step')
                                                for o in c['c12']['self'].values()) for c in comps)

    mech_seen = {}

    def K(what, msg=None):
        for mname in ('colored-rel-step-from-single-wrt', 'colored-rel-step-from-earlier-point'):
            # a wrong (1e-12 minimum / foreign) step observed on an implicit colored component at an earlier point:
            # its dr/dy column rounds to zero, the enclosing DirectSolver names one of its states as singular
            if 'raises:RuntimeError@direct.py' in what and msg and any(
                    mname in mech_seen.get(c['name'], ()) and c['kind'] == 'imp' and
                    any(('.' + o['name'] + "'") in msg for o in c['outputs']) for c in comps):
                return '%s:colored:%s' % (mname, what)
        if cs_step_imp and 'raises:RuntimeError@direct.py' in what:
            # the zero sparsity (fd sparsity sweep with the cs step) wipes the dr/dy block of the implicit component
            return 'colored-cs-sparsity-by-fd-with-cs-step:colored:%s' % what
        if other_method and 'raises:UnboundLocalError@approximation_scheme.py:_init_colored_approximations' in what:
            # the scheme of the method that owns no colored column still builds colored approximation groups
            return 'colored-beside-other-method:%s' % what
        return 'colored:%s:%s' % (what, '+'.join(methods))
    other_method = any(o_['method'] != c['c12']['coloring']['method'] for c in comps
                       for o_ in (c['c12'].get('xblocks') or {}).values())
    first = True
    cells = []
    ncolored = 0
    later_judged = 0
    with FailureMonitor() as fmon:
        try:
            prob = G.build(spec, hook=rec, comp_factory=kit.comp_factory)
            prob.setup(mode='fwd')
            prob.run_model()
            twin = G.build(_twin(spec), hook=rec2, comp_factory=kit.comp_factory)
            twin.setup(mode='fwd')
            twin.run_model()
        except Exception as e:
            _exc(acc, K, 'setup-or-run', e, case, first)
            return
        if fmon.failures:
            prob.cleanup()
            twin.cleanup()
            acc.skip('solver-nonconvergence')
            return
        sysm = {c['name']: prob.model._get_subsystem(spec['path'][c['name']]) for c in comps}
        tsys = {c['name']: twin.model._get_subsystem(spec['path'][c['name']]) for c in comps}
        earlier = {c['name']: [] for c in comps}
        weak = {}
        where = 'run_linearize'
        try:
            for ip in range(len(hp)):
                scen = 'colored' if ip == 0 else 'colored-later-point'
                if ip > 0:
                    where = 'set-point-and-run'
                    for p_ in (prob, twin):
                        _set_points(p_, spec, hp[ip])
                        p_.run_model()
                    if fmon.failures:
                        break
                    if rng.random() < 0.3:
                        # the options of a check are used for the check only
                        where = 'check_partials'
                        st = rng.random()
                        before = _snap(prob.model)
                        done_ = [_check_partials_between(p_, st, comps) for p_ in (prob, twin)]
                        if None in done_:
                            acc.count('guard:check_partials-with-the-options-in-force-is-a-documented-error')
                        else:
                            acc.count('obs:hist-check_partials-between-linearizations')
                            # (check_partials re-evaluates the residuals of the components it checks: they hold
                            #  r(inputs, outputs) afterwards, which is not a side effect of an approximation)
                            first = _restore_viols(acc, [b_ for b_ in _cmp_snap(acc, before, _snap(prob.model))
                                                         if b_[0] != 'residuals'], K, 'check_partials', case, first)
                    where = 'run_linearize'
                states = {c['name']: _comp_state(sysm[c['name']], c) for c in comps}
                out = []
                mech = {c['name']: set() for c in comps}
                for rnd in ((1, 2) if ip == 0 else (2,)):
                    before = _snap(prob.model)
                    rec.on = True
                    prob.model.run_linearize()      # round 1 includes the dynamic sparsity/coloring computation
                    rec.on = False
                    events = rec.take()
                    first = _restore_viols(acc, _cmp_snap(acc, before, _snap(prob.model)), K,
                                           'run_linearize%d' % rnd, case, first)
                    if rnd == 1:
                        acc.count('obs:restore-around-dynamic-coloring')
                        # the perturbations of round 1 include the sparsity sweep: its jacobian is kept and judged
                        # together with the step observations of round 2 (same point, same options)
                        jac1 = {}
                        for c in comps:
                            keys = [tuple(k_.split('|')) for k_ in c['c12']['blocks']] + \
                                   [(o_, o_) for o_ in c['c12']['self']] + \
                                   [tuple(k_.split('|')) for k_ in c['c12'].get('xblocks', {})]
                            jac1[c['name']] = {k_: _dense(sysm[c['name']]._jacobian[k_]) for k_ in keys}
                        continue
                    for c in comps:
                        if ip > 0 and weak.get(c['name']):
                            # the dynamic sparsity was detected where some structural entry could not be told from
                            # zero by the declared approximation (documented: sparsity is computed numerically, once)
                            acc.count('skip-obs:hist-sparsity-detected-at-ill-conditioned-point')
                            continue
                        o2 = []
                        dg = {}
                        nc, nobs, nev = _judge_comp(kit, c, sysm[c['name']], states[c['name']], events,
                                                    rec.first_lin.get(c['name']), o2, colored=True,
                                                    earlier=earlier[c['name']], diag=dg)
                        if ip == 0 and dg.get('weak'):
                            weak[c['name']] = True
                        if ip == 0:
                            _judge_comp(kit, c, sysm[c['name']], states[c['name']], events,
                                        rec.first_lin.get(c['name']), o2, colored=True, jac_src=jac1[c['name']],
                                        tag='(first-linearize)')
                        # (only mechanisms confirmed by the observed perturbations are named)
                        mech[c['name']] |= set(kp for kp, ob, _ in o2 if kp.startswith(MECHANISMS) and
                                               ob == 'step-size')
                        mech_seen.setdefault(c['name'], set()).update(mech[c['name']])
                        out += o2
                        info = sysm[c['name']]._coloring_info
                        ncols = sum(states[c['name']][0][k].size for k in set(
                            key.split('|')[1] for key in c['c12']['blocks'])) + \
                            sum(states[c['name']][1][o].size for o in c['c12']['self'])
                        per = 2 if kit.eff_form(list(c['c12']['blocks'].values())[0]) == 'central' else 1
                        # (evaluations spent on uncolored approximated blocks beside the coloring: one per entry and
                        #  point of the stencil)
                        xw = {}
                        for key, o_ in c['c12'].get('xblocks', {}).items():
                            xw[key.split('|')[1]] = 2 if kit.eff_form(o_) == 'central' else 1
                        nx = sum(states[c['name']][0][k].size * m_ for k, m_ in xw.items())
                        used = info.coloring is not None and nev - nx < ncols * per
                        if ip == 0:
                            cells += nc
                            if c['c12'].get('xblocks'):
                                acc.count('cell:hist-colored:uncolored-approximated-blocks-beside-coloring')
                                if set(o_['method'] for o_ in c['c12']['xblocks'].values()) != \
                                        set([c['c12']['coloring']['method']]):
                                    acc.count('cell:hist-colored:other-method-beside-coloring')
                            if info.coloring is not None:
                                acc.count('obs:coloring-object-present')
                            if used:
                                ncolored += 1
                                acc.count('obs:colored-fewer-evaluations')
                        elif used:
                            later_judged += 1
                            acc.count('obs:hist-colored-later-point')
                            o_ = list(c['c12']['blocks'].values())[0]
                            if kinds[ip] not in ('same', 'negated'):
                                acc.count('cell:hist-colored:%s' % kit.cell_of(o_))
                                if o_['method'] == 'fd' and (o_.get('step_calc') or 'abs') != 'abs':
                                    acc.count('obs:hist-colored-rel-step-at-point-of-other-magnitude')
                                    if len(set(k.split('|')[1] for k in c['c12']['blocks'])) == 1 and \
                                            not c['c12']['self'] and o_.get('step_calc') != 'rel_element':
                                        acc.count('obs:hist-colored-rel-step-single-wrt')
                twin.model.run_linearize()
                for c in comps:
                    if ip > 0 and weak.get(c['name']):
                        continue
                    x, y, r = states[c['name']]
                    ev = kit.comp_eval(c, x, y if c['kind'] == 'imp' else None)
                    allb = [(k.split('|')[0], k.split('|')[1], o) for k, o in c['c12']['blocks'].items()] + \
                           [(o_, o_, o) for o_, o in c['c12']['self'].items()]
                    for o_, k, opts in allb:
                        Jc = _dense(sysm[c['name']]._jacobian[o_, k])
                        Ju = _dense(tsys[c['name']]._jacobian[o_, k])
                        acc.count('obs:colored-vs-uncolored')
                        xk = y[o_] if k == o_ else x[k]
                        if kit.eff_form(opts) == 'cs':
                            tol = np.full(Ju.shape, 2.0 * kit.cs_bound(Ju))
                        else:
                            h = kit.doc_step(opts, xk)
                            f_ = ev[o_]['f']
                            rtrue = (y[o_] + c.get('beta', 0.0) * np.sin(y[o_]) - f_) if c['kind'] == 'imp' \
                                else (f_ - y[o_])
                            _, _, R = kit.fd_bound(kit.eff_form(opts), h, np.zeros(Ju.shape), Ju, xk, ev[o_]['E'],
                                                   2.0 * np.abs(r[o_] - rtrue))
                            tol = 8.0 * R
                        d = np.abs(Jc - Ju)
                        if Jc.shape != Ju.shape or np.any(d > tol):
                            i, j = np.unravel_index(np.argmax(d / np.maximum(tol, 1e-300)), d.shape)
                            kp = kit.cell_of(opts)
                            if kit.eff_form(opts) == 'cs' and opts.get('step') and Jc.shape == Ju.shape and \
                                    (Jc[i, j] == 0.0 or _sparsity_lost(sysm[c['name']], c)):
                                kp = 'colored-cs-sparsity-by-fd-with-cs-step'
                            elif 'colored-rel-step-from-earlier-point' in mech[c['name']]:
                                kp = 'colored-rel-step-from-earlier-point'
                            elif 'colored-rel-step-from-single-wrt' in mech[c['name']]:
                                kp = 'colored-rel-step-from-single-wrt'
                            out.append((kp, 'colored-vs-uncolored',
                                        'd %s/d %s [%d,%d]: colored %.12g uncolored %.12g diff %.3e > round-off bound '
                                        '%.3e opts %s coloring %s' % (o_, k, i, j, Jc[i, j], Ju[i, j], d[i, j], tol[i, j],
                                                                     opts, c['c12']['coloring'])))
                first = _report(acc, case, scen, out, first)
                for c in comps:
                    earlier[c['name']].append(states[c['name']][:2])
                if ip > 0:
                    acc.count('cell:hist:%s' % kinds[ip])
        except Exception as e:
            rec.on = False
            _exc(acc, K, where, e, case, first)
            prob.cleanup()
            twin.cleanup()
            return
        failed = list(fmon.failures)
    prob.cleanup()
    twin.cleanup()
    if failed and first:
        acc.skip('solver-nonconvergence')
        return
    for cell, _, _ in cells:
        acc.count('cell:colored:' + cell)
    if any(c['c12'].get('keep') for c in comps):
        acc.count('cell:colored:options-kept-from-declare_partials')
    if any(c['kind'] == 'imp' for c in comps):
        acc.count('cell:colored:implicit')
    if first:
        if ncolored == 0:
            acc.skip('coloring-not-used')      # min_improve_pct rejected it / nothing to gain: not a colored case
            return
        if hist and later_judged == 0:
            acc.skip('no-later-point-judged')
            return
        acc.ok(fingerprint(['colored-hist' if hist else 'colored', sorted(set(c_ for c_, _, _ in cells)),
                            sorted(c['kind'] for c in comps), [c['c12']['coloring']['wrt'] == '*' for c in comps]] +
                           ([kinds] if hist else [])),
               nontrivial=any(nl for _, nl, _ in cells),
               sample={'seed': case['seed'], 'scenario': case['scenario'], 'kinds': kinds,
                       'coloring': {c['name']: c['c12']['coloring'] for c in comps}})


def _run_total_hist(case, acc):
    """History of total approximations (model.approx_totals + total coloring declared on the driver, computed the
    way the optimizer drivers do) at points of very different magnitude, next to an uncolored twin.  Judged at
    every point: totals vs exact (bound from the step approx_totals documents for the CURRENT design point),
    colored vs uncolored to round-off, state restoration."""
    import io
    import contextlib
    from omv.gen import models as G
    from omv.gen import c12_kit as kit
    from omv.ref.flatmodel import FlatModel
    spec, rng = _gen_spec(case, p_group=0.6, p_matfree=0.0, solver_mix='runonce', p_cycle=0.0, p_implicit=0.25,
                          p_sparse=0.6, max_comps=3)
    opts = kit.rand_opts(rng, method='fd', small_steps=False)
    opts.pop('minimum_step', None)            # approx_totals has no minimum_step argument
    if rng.random() < 0.6:
        opts['step_calc'] = rng.choice(['rel', 'rel_avg', 'rel_legacy', 'rel_element'])
    rel = (opts.get('step_calc') or 'abs') != 'abs'
    opts['step'] = rng.choice([None, 1e-6, 1e-7, 3e-7]) if rel else rng.choice([None, 1e-4, 1e-5, 1e-6])
    if rng.random() < 0.3:
        # the fd defaults, spelled out or not (what a total coloring of an approximated model uses in any case)
        opts = {'method': 'fd', 'form': rng.choice([None, 'forward']), 'step': rng.choice([None, 1e-6]),
                'step_calc': rng.choice([None, 'abs'])}
        rel = False
    # (relative steps: |x| <= 2e3, so h stays <= ~5e-3 and the local derivative bounds of the reference hold)
    hp, kinds = _hist_points(spec, rng, 3, max_exp=3.0)
    _apply_points(spec, hp[0])
    api = rng.choice(['driver', 'driver', 'problem'])
    cell = kit.cell_of(opts)
    form = kit.eff_form(opts)
    scen0 = 'total-colored'
    first = True
    of = list(dict.fromkeys(spec['of']))
    wrt = list(dict.fromkeys(spec['wrt']))

    def K(what, msg=None):
        return '%s:%s:%s' % (scen0, what, cell)
    rec, rec2 = Recorder(), Recorder()
    judged = 0
    nonlin = False
    used_any = False
    earlier_p = []
    with FailureMonitor() as fmon:
        probs = []
        try:
            for colored, hook in ((True, rec), (False, rec2)):
                p_ = G.build(spec, hook=hook, comp_factory=kit.comp_factory)
                p_.model.approx_totals(**{k: v for k, v in opts.items() if v is not None})
                for w in wrt:
                    p_.model.add_design_var(G.top_name(spec, w))
                for o in of:
                    p_.model.add_constraint(G.top_name(spec, o), upper=1e30)
                if colored:
                    p_.driver.declare_coloring(show_summary=False, show_sparsity=False,
                                               num_full_jacs=rng.choice([2, 3]), min_improve_pct=0.0)
                p_.setup(mode='fwd')
                p_.run_model()
                probs.append(p_)
            prob, twin = probs
            with contextlib.redirect_stdout(io.StringIO()):
                # (what ScipyOptimizeDriver / pyOptSparseDriver do before their first gradient evaluation)
                coloring = prob.get_total_coloring(prob.driver._coloring_info, run_model=False)
        except Exception as e:
            _exc(acc, K, 'setup-or-coloring', e, case, first)
            for p_ in probs:
                p_.cleanup()
            return
        if fmon.failures or coloring is None:
            for p_ in probs:
                p_.cleanup()
            acc.skip('solver-nonconvergence' if fmon.failures else 'coloring-not-used')
            return
        of_n = [G.top_name(spec, o) for o in of]
        wrt_n = [G.top_name(spec, w) for w in wrt]
        for ip in range(len(hp)):
            scen = scen0 if ip == 0 else scen0 + '-later-point'
            try:
                if ip > 0:
                    for p_ in probs:
                        _set_points(p_, spec, hp[ip])
                        p_.run_model()
                    _apply_points(spec, hp[ip])
                if fmon.failures:
                    break
                fm = FlatModel(spec)
                p = fm.p0()
                u, conv = fm.solve(p)
                if not conv or fm.selfcheck(u, p) > 1e-8:
                    acc.count('skip-point:oracle')
                    continue
                du_cur = np.zeros(fm.nstate)
                worst = 0.0
                for n in fm.state_names:
                    got = np.asarray(prob.get_val(G.abs_name(spec, n))).ravel()
                    ref = fm.value(n, u, p).ravel()
                    du_cur[slice(*fm.soff[n])] = np.abs(got - ref)
                    worst = max(worst, float(np.max(np.abs(got - ref)) / max(1.0, np.max(np.abs(ref)))))
                if worst > 1e-7 or (fm.nstate and np.linalg.cond(fm.jac(u, p)[0]) > 1e6):
                    acc.count('skip-point:oracle')
                    continue
                S, M2, M3, eu = _total_ref(kit, fm, u, p, False)
                if ip > 0 and rng.random() < 0.3:
                    # check_totals with its own fd options between two gradient evaluations
                    kw = {'method': 'fd', 'form': rng.choice(['forward', 'central']), 'step': rng.choice([1e-3, 2e-7]),
                          'step_calc': rng.choice(['abs', 'rel_avg'])}     # (never the options in force: documented error)
                    before = _snap(prob.model)
                    for p_ in probs:
                        p_.check_totals(of=of_n, wrt=wrt_n, out_stream=None, **kw)
                    acc.count('obs:hist-check_totals-between-gradients')
                    first = _restore_viols(acc, [b_ for b_ in _cmp_snap(acc, before, _snap(prob.model))
                                                 if b_[0] != 'residuals'], K, 'check_totals', case, first)
                before = _snap(prob.model)
                rec.on = rec2.on = True
                if api == 'driver':
                    # what every optimizer calls at each iterate (keeps its total-jacobian object between calls)
                    Jc = prob.driver._compute_totals(of=of_n, wrt=wrt_n, return_format='flat_dict',
                                                     driver_scaling=False)
                    Ju = twin.driver._compute_totals(of=of_n, wrt=wrt_n, return_format='flat_dict',
                                                     driver_scaling=False)
                else:
                    Jc = prob.compute_totals(of=of_n, wrt=wrt_n, return_format='flat_dict')
                    Ju = twin.compute_totals(of=of_n, wrt=wrt_n, return_format='flat_dict')
                acc.count('cell:total-colored:api/' + api)
                rec.on = rec2.on = False
                nc, nu = len(rec.take()), len(rec2.take())
                first = _restore_viols(acc, _cmp_snap(acc, before, _snap(prob.model)), K, 'compute_totals', case,
                                       first)
                acc.count('obs:restore-around-colored-total-approx')
            except Exception as e:
                rec.on = rec2.on = False
                _exc(acc, K, 'compute_totals', e, case, first)
                for p_ in probs:
                    p_.cleanup()
                return
            if fmon.failures:
                break
            used = nc < nu
            used_any = used_any or used
            # white box (classification only): the options the model-level approximation really uses now
            eff = dict(prob.model._owns_approx_jac_meta)
            norm = lambda o_: (o_.get('step') or kit.FD_DEFAULT_STEP, o_.get('form') or 'forward',   # noqa: E731
                               o_.get('step_calc') or 'abs')
            dropped = norm(eff) != norm(opts)
            # white box (classification only): the step the colored approximation applies to EVERY column (the scheme
            # keeps one data tuple for all colors; entry 0 of it is used)
            h_used, now_, old_ = None, set(), set()
            try:
                cg = prob.model._approx_schemes['fd']._colored_approx_groups
                h_used = float(np.abs(np.ravel(np.asarray(cg[0][0][0], dtype=float)[0])[0]))
            except Exception:
                pass
            if rel and h_used is not None:
                for w in wrt:
                    now_ |= set(kit.doc_step(opts, p[slice(*fm.poff[w])]).tolist())
                    for pe in earlier_p:
                        old_ |= set(kit.doc_step(opts, pe[slice(*fm.poff[w])]).tolist())
            like = lambda H: h_used is not None and any(abs(h_used - hc) <= 1e-9 * hc for hc in H)   # noqa: E731

            def mech_of(hdoc):
                """names a diagnosed mechanism for a block whose documented steps are hdoc, or ''."""
                if dropped:
                    return 'colored-total-drops-approx_totals-options'
                if not rel or h_used is None or np.all(np.abs(hdoc - h_used) <= 1e-9 * hdoc):
                    return ''
                if like(now_):
                    return 'colored-rel-step-from-single-wrt'
                if like(old_):
                    return 'colored-rel-step-from-earlier-point'
                return ''
            out = []
            for o_ in of:
                a, b = fm.soff[o_]
                for w in wrt:
                    wa, wb = fm.poff[w]
                    D = S[a:b, wa:wb]
                    pcol = p[wa:wb]
                    h = kit.doc_step(opts, pcol)
                    eu_rows = eu[a:b] + (0.5 * du_cur[a:b] if form in ('forward', 'backward') else 0.0)
                    bound, T, R = _total_bound(kit, form, h, D, M2[a:b, wa:wb], M3[a:b, wa:wb], eu_rows, pcol)
                    nonlin = nonlin or bool(np.any(M2[a:b, wa:wb] > 0))
                    for tag, Jd in (('colored', Jc), ('uncolored', Ju)):
                        J = _dense(Jd[G.top_name(spec, o_), G.top_name(spec, w)])
                        J = J.reshape(D.shape) if J.size == D.size else J
                        if J.shape != D.shape:
                            out.append((cell, 'shape:' + tag, '%s|%s shape %s expected %s' % (o_, w, J.shape, D.shape)))
                            continue
                        err = np.abs(J - D)
                        judged += 1
                        if not np.all(np.isfinite(J)) or np.any(err > bound):
                            i, j = np.unravel_index(np.argmax(np.where(np.isfinite(err), err / bound, np.inf)),
                                                    err.shape)
                            kp = cell
                            if tag == 'colored' and mech_of(h):
                                # explained by the step that was really applied?
                                hu = np.full(h.shape, h_used) if not dropped else None
                                if dropped or np.all(err <= _total_bound(kit, form, hu, D, M2[a:b, wa:wb],
                                                                         M3[a:b, wa:wb], eu_rows, pcol)[0]):
                                    kp = mech_of(h)
                            out.append((kp, 'value:' + tag,
                                        'd %s/d %s [%d,%d]: %s approx %.12g exact %.12g |err| %.3e > bound %.3e (trunc '
                                        '%.2e roundoff %.2e, documented h %.3e, wrt value %.6g) declared %s in force %s' %
                                        (o_, w, i, j, tag, J[i, j], D[i, j], err[i, j], bound[i, j], T[i, j], R[i, j],
                                         h[j], pcol[j], opts, eff)))
                    A_, B_ = (_dense(Jc[G.top_name(spec, o_), G.top_name(spec, w)]),
                              _dense(Ju[G.top_name(spec, o_), G.top_name(spec, w)]))
                    if A_.size == D.size and B_.size == D.size:
                        acc.count('obs:total-colored-vs-uncolored')
                        d = np.abs(A_.reshape(D.shape) - B_.reshape(D.shape))
                        tol = 8.0 * 4.0 * R
                        if np.any(d > tol):
                            i, j = np.unravel_index(np.argmax(d / np.maximum(tol, 1e-300)), d.shape)
                            out.append((mech_of(h) or cell, 'colored-vs-uncolored',
                                        'd %s/d %s [%d,%d]: colored %.12g uncolored %.12g diff %.3e > round-off bound '
                                        '%.3e; declared %s in force %s' %
                                        (o_, w, i, j, A_.reshape(D.shape)[i, j], B_.reshape(D.shape)[i, j], d[i, j],
                                         tol[i, j], opts, eff)))
            first = _report(acc, case, scen, out, first)
            earlier_p.append(np.array(p, copy=True))
            if rel and used and len(wrt) == 1 and opts.get('step_calc') != 'rel_element' and ip > 0 and \
                    kinds[ip] not in ('same', 'negated'):
                acc.count('obs:hist-total-colored-rel-step-single-desvar')
            if used:
                acc.count('obs:total-colored-fewer-evaluations')
                if ip > 0:
                    acc.count('obs:hist-total-colored-later-point')
                    if rel and kinds[ip] not in ('same', 'negated'):
                        acc.count('obs:hist-total-colored-rel-step-at-point-of-other-magnitude')
            if ip > 0:
                acc.count('cell:hist:%s' % kinds[ip])
        failed = list(fmon.failures)
    for p_ in probs:
        p_.cleanup()
    if failed and first:
        acc.skip('solver-nonconvergence')
        return
    if not first:
        return
    if not used_any:
        acc.skip('coloring-not-used')
        return
    if judged == 0:
        acc.skip('no-point-judged')
        return
    acc.count('cell:total-colored:' + cell)
    acc.ok(fingerprint([scen0, cell, opts.get('step'), kinds, sorted(c['kind'] for c in spec['comps'])]),
           nontrivial=nonlin,
           sample={'seed': case['seed'], 'scenario': case['scenario'], 'opts': opts, 'kinds': kinds})


def _zero_states(prob, msg):
    """names of the states whose row or column is all zero in the (finite) matrix of the DirectSolver named in msg."""
    import openmdao.api as om
    out = set()
    try:
        for s in prob.model.system_iter(include_self=True, recurse=True, typ=om.Group):
            ls = s._linear_solver
            if not isinstance(ls, om.DirectSolver) or s.msginfo not in msg:
                continue
            M = s._assembled_jac.get_dr_do_matrix() if s._assembled_jac is not None else ls._build_mtx()
            M = np.asarray(M.toarray() if hasattr(M, 'toarray') else M)
            if not np.all(np.isfinite(M)):
                return set()
            nm = []
            for n in s._resolver.abs_iter('output'):
                nm += [n] * s._var_abs2meta['output'][n]['size']
            out |= set(nm[i] for i in range(M.shape[0]) if not np.any(M[i]) or not np.any(M[:, i]))
    except Exception:
        return set()
    return out


def _cached_group_step(grp, method, abs_wrt):
    """white box: |step| per entry that the group's approximation scheme has cached for a wrt variable."""
    sch = grp._approx_schemes.get(method)
    for tup in (getattr(sch, '_approx_groups', None) or []):
        if tup[0] == abs_wrt or tup[0] == (abs_wrt,):
            try:
                deltas = np.asarray(tup[1][0], dtype=float)
            except Exception:
                return None
            d0 = np.abs(deltas[0]) if deltas.ndim else np.abs(deltas)
            return np.atleast_1d(d0)
    return None


def _sub_spec(spec, members, actual_inputs):
    """spec of the sub-model made of `members`, its external inputs turned into independent variables."""
    cmap = {c['name']: c for c in spec['comps']}
    conn_of = {cn['tgt']: cn for cn in spec['conns']}
    mouts = set(o['name'] for m in members for o in cmap[m]['outputs'])
    ext, conns, outs = [], [], []
    for m in members:
        for i in cmap[m]['inputs']:
            cn = conn_of[i['name']]
            if cn['src'] in mouts:
                conns.append(cn)
            else:
                k = i['name']
                v = np.asarray(actual_inputs[k], dtype=float)
                outs.append({'name': 'E_' + k, 'shape': [int(v.size)], 'units': None, 'val': v.ravel().tolist()})
                conns.append({'src': 'E_' + k, 'tgt': k, 'tgt_units': None, 'chain': []})
                ext.append(k)
    sub = {'comps': [{'name': 'ext', 'kind': 'ivc', 'inputs': [], 'outputs': outs}] + [cmap[m] for m in members],
           'conns': conns, 'params': []}
    return sub, ext


def _run_group(case, acc):
    from omv.gen import models as G
    from omv.gen import c12_kit as kit
    from omv.ref.flatmodel import FlatModel
    from openmdao.jacobians.dictionary_jacobian import DictionaryJacobian
    total = case['scenario'] == 'total'
    scen0 = case['scenario']
    spec, rng = _gen_spec(case, p_group=0.6 if total else 0.95, p_matfree=0.1)
    if total:
        node, gpath = spec['tree'], ()
    else:
        cm_ = {c['name']: c for c in spec['comps']}
        src_of = {cn['tgt']: cn['src'] for cn in spec['conns']}

        def usable(nd_):
            mem = _members(nd_)
            outs = set(o['name'] for m_ in mem for o in cm_[m_]['outputs'])
            real = [m_ for m_ in mem if cm_[m_]['kind'] != 'ivc']
            return bool(real) and any(src_of[i['name']] not in outs for m_ in real for i in cm_[m_]['inputs'])
        nodes = [t for t in _group_nodes(spec['tree']) if usable(t[1])]
        if not nodes:
            raise HarnessSkip('no-usable-subgroup')
        nodes.sort(key=lambda t: -len(_members(t[1])))
        gpath, node = nodes[0] if rng.random() < 0.6 else rng.choice(nodes)
    members_all = _members(node)
    members = [m for m in members_all if not m.startswith('iv')]
    if not members:
        raise HarnessSkip('group-without-components')
    solv = _sub_solvers(node)
    if not total and not _single_pass_ok(spec, node):
        # a RunOnce group whose children are connected against their execution order is not solved by one pass
        # (the enclosing loop does it): its FD "solve" is not a solve, the semi-total is undefined
        raise HarnessSkip('group-not-solved-by-its-own-solver')
    asm_ancestor = False
    nd = spec['tree']
    for gname in (None,) + tuple(gpath[:-1]):
        if gname is not None:
            nd = [ch for ch in nd['children'] if ch.get('group') == gname][0]
        ln = nd.get('ln', {})
        asm_ancestor = asm_ancestor or (ln.get('type') == 'direct' and bool(ln.get('assemble_jac')))
    iterative = any(nl != 'runonce' or cyc for nl, cyc in solv)
    opts = kit.rand_opts(rng, small_steps=False)
    opts.pop('minimum_step', None)            # approx_totals has no minimum_step argument
    if opts['method'] == 'cs' and any(nl in ('newton', 'broyden') for nl, _ in solv):
        # documented restriction: a gradient-based solver under complex step must not get its gradients from
        # complex step -> use fd for such groups
        opts = kit.rand_opts(rng, method='fd', small_steps=False)
        opts.pop('minimum_step', None)
    if opts['method'] == 'fd' and iterative:
        opts['step'] = rng.choice([1e-3, 1e-4, 1e-4, 1e-5])   # solver tolerance 1e-11 / h stays small
    cell = kit.cell_of(opts)
    form = kit.eff_form(opts)
    judge_values = not (form == 'cs' and iterative)
    pts2 = _points(spec, rng, second=True)
    first = True

    has_imp = any(c['kind'] == 'imp' and c['name'] in members for c in spec['comps'])
    own_grad = node.get('nl', {}).get('type') in ('newton', 'broyden')
    has_mf = any(c.get('matfree') and c['name'] in members for c in spec['comps'])

    imp_outs = [o['name'] for c in spec['comps'] if c['kind'] == 'imp' and c['name'] in members
                for o in c['outputs']]
    mf_outs = [o['name'] for c in spec['comps'] if c.get('matfree') and c['name'] in members for o in c['outputs']]

    def K(what, msg=None):
        names = lambda outs: msg is None or any((o + "'") in msg for o in outs)   # noqa: E731
        if has_imp and not total and 'raises:RuntimeError@direct.py:_inverse' in what and msg and \
                msg.startswith('NaN entries found') and msg.rstrip().endswith('[].'):
            # DirectSolver._inverse (Broyden) catches scipy's LinAlgError (a ValueError) of an exactly singular
            # matrix as "NaN entries ... []" and names no state: look at the matrix - all-zero rows/columns that
            # belong only to states of the group's implicit components are the same mechanism
            zs = _zero_states(prob, msg)
            if zs and all(z.rsplit('.', 1)[-1] in imp_outs for z in zs):
                return 'approx-group-with-implicit-comp:%s:%s' % (scen0, what)
        if has_imp and not total and 'raises:RuntimeError@direct.py' in what and names(imp_outs):
            # the (state, state) block of the approximated group is not the explicit -1 diagonal; the solver
            # names a state of an implicit component of the group as the singular one
            return 'approx-group-with-implicit-comp:%s:%s' % (scen0, what)
        if has_mf and not total and 'raises:RuntimeError@direct.py' in what and names(mf_outs):
            # no (state, state) block at all for a component without declared partials
            return 'approx-group-with-matrix-free-comp:%s:%s' % (scen0, what)
        if own_grad and not total and 'raises:' in what and '@direct.py' in what:
            # the approximated group itself is solved by Newton/Broyden with a DirectSolver
            return 'approx-group-with-own-gradient-solver:%s:%s' % (scen0, what)
        if own_grad and total and 'raises:AttributeError@group.py:_apply_linear' in what and \
                (msg is None or '_TotalJacInfo' in msg):
            # model.approx_totals() + Newton/Broyden at the root: the _TotalJacInfo that compute_totals left in
            # model._jacobian is used as the linear operator of the next nonlinear solve
            return 'approx-model-stale-totaljac-in-own-newton:%s:%s' % (scen0, what)
        return '%s:%s:%s' % (scen0, what, opts['method'] + ('+iterative' if iterative else ''))
    judged_blocks = 0
    nonlin = False
    with FailureMonitor() as fmon:
        try:
            prob = G.build(spec, comp_factory=kit.comp_factory)
            grp = prob.model if total else prob.model._get_subsystem('.'.join(gpath))
            grp.approx_totals(**{k: v for k, v in opts.items() if v is not None})
            prob.setup(mode=rng.choice(['fwd', 'rev']))
        except Exception as e:
            _exc(acc, K, 'setup', e, case, first)
            return
        cmap = {c['name']: c for c in spec['comps']}
        frozen = None
        for pt in (1, 2):
            scen = scen0 if pt == 1 else scen0 + '-pt2'
            try:
                if pt == 2:
                    _set_points(prob, spec, pts2)
                    _apply_points(spec, pts2)
                prob.run_model()
            except Exception as e:
                _exc(acc, K, 'run_model', e, case, first)
                prob.cleanup()
                return
            if fmon.failures:
                break
            # ---- reference ------------------------------------------------------------------------------
            if total:
                fm = FlatModel(spec)
                colvars = list(spec['wrt'])
                colname = {w: w for w in colvars}
            else:
                actual = {}
                for m in members:
                    s_ = prob.model._get_subsystem(spec['path'][m])
                    for i in cmap[m]['inputs']:
                        actual[i['name']] = np.array(s_._inputs[i['name']], dtype=float).ravel()
                sub, ext = _sub_spec(spec, members_all, actual)
                if not ext:
                    raise HarnessSkip('group-without-external-inputs')
                fm = FlatModel(sub)
                colvars = ext
                colname = {k: 'E_' + k for k in ext}
            p = fm.p0()
            u, conv = fm.solve(p)
            if not conv or fm.selfcheck(u, p) > 1e-8:
                acc.count('skip-point:oracle')
                break
            worst = 0.0
            du_cur = np.zeros(fm.nstate)     # |stored outputs - exactly converged states| (solver tolerance of outer loops)
            for n in fm.state_names:
                got = np.asarray(prob.get_val(G.abs_name(spec, n))).ravel()
                ref = fm.value(n, u, p).ravel()
                du_cur[slice(*fm.soff[n])] = np.abs(got - ref)
                worst = max(worst, float(np.max(np.abs(got - ref)) / max(1.0, np.max(np.abs(ref)))))
            if worst > 1e-7:
                acc.count('skip-point:values-differ-from-reference')
                break
            S, M2, M3, eu = _total_ref(kit, fm, u, p, iterative)
            if fm.nstate and np.linalg.cond(fm.jac(u, p)[0]) > 1e6:
                acc.count('skip-point:ill-conditioned')
                break
            # ---- the approximation -----------------------------------------------------------------------
            before = _snap(prob.model)
            try:
                if total:
                    of_names = [G.top_name(spec, o) for o in spec['of']]
                    wrt_names = [G.top_name(spec, w) for w in spec['wrt']]
                    Jd = prob.compute_totals(of=of_names, wrt=wrt_names, return_format='flat_dict')
                    api = 'compute_totals'
                else:
                    prob.model.run_linearize()
                    api = 'run_linearize'
            except Exception as e:
                _exc(acc, K, 'approximation', e, case, first)
                prob.cleanup()
                return
            if fmon.failures:
                break
            first = _restore_viols(acc, _cmp_snap(acc, before, _snap(prob.model)), K, api, case, first)
            acc.count('obs:restore-around-%s-approx' % scen0)
            out = []
            maxbound = None
            ofs = spec['of'] if total else [o['name'] for m in members for o in cmap[m]['outputs']]
            for o_ in ofs:
                a, b = fm.soff[o_]
                for w in (colvars if judge_values else []):
                    wa, wb = fm.poff[colname[w]]
                    try:
                        if total:
                            J = _dense(Jd[G.top_name(spec, o_), G.top_name(spec, w)])
                        else:
                            key = (G.abs_name(spec, o_), G.abs_name(spec, w))
                            sjs = grp._jacobian._get_subjacs()
                            if key not in sjs:
                                if np.any(np.abs(S[a:b, wa:wb]) > 1e-12):
                                    out.append((cell, 'missing-block', 'no sub-jacobian %s but exact is nonzero' %
                                                (key,)))
                                continue
                            J = _dense(sjs[key].todense())
                    except Exception as e:
                        out.append((cell, 'jacobian-read:' + type(e).__name__, str(e)[:200]))
                        continue
                    D = S[a:b, wa:wb]
                    J = J.reshape(D.shape) if J.size == D.size else J
                    if J.shape != D.shape:
                        out.append((cell, 'shape', '%s|%s shape %s expected %s' % (o_, w, J.shape, D.shape)))
                        continue
                    pcol = p[wa:wb]
                    h = kit.doc_step(opts, pcol)
                    # one-sided forms use the stored outputs as g(x): their measured inconsistency counts once more
                    eu_rows = eu[a:b] + (0.5 * du_cur[a:b] if form in ('forward', 'backward') else 0.0)
                    bound, T, R = _total_bound(kit, form, h, D, M2[a:b, wa:wb], M3[a:b, wa:wb], eu_rows, pcol)
                    err = np.abs(J - D)
                    maxbound = max(maxbound or 0.0, float(bound.max(initial=0.0)))
                    judged_blocks += 1
                    nonlin = nonlin or bool(np.any(M2[a:b, wa:wb] > 0))
                    if not np.all(np.isfinite(J)) or np.any(err > bound):
                        i, j = np.unravel_index(np.argmax(np.where(np.isfinite(err), err / bound, np.inf)),
                                                err.shape)
                        why = ''
                        if not total and fm.out_owner[o_] == G._owner(spec, w):
                            # the group-level block reuses the component's own sub-jacobian (declared sparsity
                            # pattern and value storage): entries outside the pattern are dropped and an inner
                            # gradient-based solver overwrites it when it re-linearizes during later FD solves
                            cc = cmap[fm.out_owner[o_]]
                            Dp, _ = kit.block_exact(cc, o_, w, pcol)
                            if cc['kind'] == 'imp':
                                Dp = -Dp
                            badm = ~(err <= bound)
                            csys = prob.model._get_subsystem(spec['path'][cc['name']])
                            shared = key in csys._subjacs_info and grp._subjacs_info.get(key) is csys._subjacs_info[key]
                            # (white box: the very same metadata dict, hence the same value array, is in use)
                            if shared and np.all(np.abs(J - Dp)[badm] <= 1e-9):
                                why = 'approx-group-block-reuses-component-subjac'
                        if not why and frozen is not None and form != 'cs' and (opts.get('step_calc') or 'abs') != 'abs' \
                                and w in frozen:
                            hf = kit.doc_step(opts, frozen[w])
                            bf, _, _ = _total_bound(kit, form, hf, D, M2[a:b, wa:wb], M3[a:b, wa:wb], eu_rows, pcol)
                            # white box: the step data cached by the scheme is the one of the first point
                            hact = None if total else _cached_group_step(grp, opts['method'], G.abs_name(spec, w))
                            if hact is not None and np.allclose(hact, hf, rtol=1e-9, atol=0.0) and \
                                    not np.allclose(hact, h, rtol=1e-9, atol=0.0) and np.all(err <= bf):
                                why = 'rel-step-frozen-at-first-linearization'
                        out.append((why or cell + ('+iterative' if iterative else ''), 'value',
                                    'd %s/d %s [%d,%d]: approx %.12g exact %.12g |err| %.3e > bound %.3e (trunc %.2e '
                                    'roundoff %.2e, documented h %.3e, wrt value %.6g) opts %s' %
                                    (o_, w, i, j, J[i, j], D[i, j], err[i, j], bound[i, j], T[i, j], R[i, j], h[j],
                                     pcol[j], opts)))
            if not total:
                # an approximated group is used by its parents as an explicit block: d r_o / d o = -I
                sjs = grp._jacobian._get_subjacs()
                for o_ in ofs:
                    key = (G.abs_name(spec, o_), G.abs_name(spec, o_))
                    if key in sjs:
                        acc.count('obs:group-state-diagonal')
                        Dg = _dense(sjs[key].todense())
                        if Dg.shape[0] != Dg.shape[1] or np.any(Dg != -np.eye(Dg.shape[0])):
                            out.append(('approx-group-with-implicit-comp' if cmap[fm.out_owner[o_]]['kind'] == 'imp'
                                        else cell, 'state-diagonal',
                                        'block d %s/d %s of the approximated group is not -I: %s' %
                                        (o_, o_, np.round(np.diag(Dg) if Dg.ndim == 2 else Dg, 6).tolist())))
            if not total and judge_values and maxbound is not None:
                # totals of the whole model THROUGH the approximated group (its parents use the approximated
                # jacobian in their linear solves).  First-order perturbation bound of the linear system:
                # |dS| <= |Ju^-1| (|dJu| |S| + |dJp|), every perturbed entry <= maxbound (the semi-total bound),
                # group rows are used in explicit form (factor max(1,|Ju|)); slack factor 10.
                try:
                    fmF = FlatModel(spec)
                    pF = fmF.p0()
                    uF, convF = fmF.solve(pF)
                    if convF and fmF.selfcheck(uF, pF) < 1e-8:
                        JuF, _ = fmF.jac(uF, pF)
                        SF, condF = fmF.du_dp(uF, pF)
                        if condF < 1e6:
                            NF = np.linalg.inv(JuF)
                            tolF = 10.0 * np.abs(NF).sum(axis=1).max() * max(1.0, np.abs(JuF).sum(axis=1).max()) * \
                                (1.0 + np.abs(SF).sum(axis=1).max(initial=0.0)) * fmF.nstate * maxbound + 1e-8
                            # OpenMDAO rejects wrt variables whose source lies inside an approximated group
                            wrts = [w for w in spec['wrt'] if fmF.out_owner.get(w) not in members_all]
                            if not wrts:
                                raise HarnessSkip('_no_external_wrt')
                            of_n = [G.top_name(spec, o) for o in spec['of']]
                            wrt_n = [G.top_name(spec, w) for w in wrts]
                            Jm = prob.compute_totals(of=of_n, wrt=wrt_n, return_format='array')
                            Jr = np.vstack([np.hstack([fmF.total(o, w, uF, pF, SF) for w in wrts])
                                            for o in spec['of']])
                            em = np.abs(Jm - Jr)
                            if fmon.failures:
                                acc.count('skip-obs:model-totals-linear-solver-nonconvergence')
                            else:
                                acc.count('obs:model-totals-through-approx-group')
                            if fmon.failures:
                                pass
                            elif Jm.shape != Jr.shape or not np.all(np.isfinite(Jm)) or em.max(initial=0.0) > tolF:
                                kp = cell
                                if asm_ancestor and not any(ob == 'value' for _, ob, _ in out):
                                    # (the group's own blocks are right, an ancestor with an assembled jacobian
                                    #  does not see them)
                                    kp = 'approx-group-under-assembled-jacobian'
                                elif any(k_.startswith(MECHANISMS) for k_, _, _ in out):
                                    kp = [k_ for k_, _, _ in out if k_.startswith(MECHANISMS)][0]
                                elif has_mf:
                                    kp = 'approx-group-with-matrix-free-comp'
                                elif own_grad and node.get('ln', {}).get('type') != 'direct' and \
                                        not isinstance(grp._jacobian, DictionaryJacobian):
                                    # white box: the group's own Newton/Broyden (which switches
                                    # _owns_approx_jac off) called Group._apply_linear -> _get_jacobian during the
                                    # FD solves and replaced the approximation jacobian being filled
                                    kp = 'approx-group-own-newton-discards-jacobian'
                                    if os.environ.get('OMV_DEBUG'):
                                        print('C12 debug: grp._jacobian after totals:', type(grp._jacobian).__name__)
                                out.append((kp, 'model-totals', 'totals of the model through the approximated group '
                                            'differ from exact by %.3e (> %.3e); e.g. got %.8g exact %.8g' %
                                            (em.max(), tolF, Jm.ravel()[em.argmax()], Jr.ravel()[em.argmax()])))
                except HarnessSkip:
                    acc.count('skip-obs:model-totals-no-external-wrt')
                except Exception as e:
                    _exc(acc, K, 'model-totals', e, case, first)
                    first = False
            first = _report(acc, case, scen, out, first)
            if pt == 1:
                frozen = {w: p[slice(*fm.poff[colname[w]])].copy() for w in colvars}
            acc.count('obs:point-%d' % pt)
        failed = list(fmon.failures)
    prob.cleanup()
    if failed and first:
        acc.skip('solver-nonconvergence')
        return
    if not first:
        return
    if judged_blocks == 0 and judge_values:
        acc.skip('no-point-judged')
        return
    acc.count('cell:%s:%s' % (scen0, cell))
    if iterative:
        acc.count('obs:group-approx-over-iterative-solver')
    if form == 'cs':
        acc.count('cell:group-under-complex-step')
    if any(cmap[m]['kind'] == 'imp' for m in members):
        acc.count('obs:group-approx-with-implicit-component')
    acc.ok(fingerprint([scen0, cell, solv, sorted(cmap[m]['kind'] for m in members)]),
           nontrivial=nonlin or not judge_values,
           sample={'seed': case['seed'], 'scenario': scen0, 'opts': opts, 'group': list(gpath),
                   'members': members})
