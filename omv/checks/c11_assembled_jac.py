"""C11 - Assembled Jacobian formats represent the same linear operator.

Two layers.

Model layer.  A generated model spec (omv/gen/models.py: nested groups, promotion chains, src_indices chains with
repeats / negatives / slices, unit conversions, output scaling, implicit components, feedback) is built with harness
components (omv/gen/c11comps.py) that declare every sub-Jacobian in a randomly planned style and record the
triplets they hand to OpenMDAO.  The same spec is built four times: with the default dictionary (matrix-free
application) Jacobian and with `assembled_jac_type` dense / csc / csr, the assembling linear solver (DirectSolver or
ScipyKrylov with assemble_jac=True, or the linear solver of a Newton solver) placed at the root, at every sub-group
and implicit component, or both.  No nonlinear solve is needed: every problem is driven through the same history of
linearization points - the harness writes a random state into the outputs, `run_apply_nonlinear()` transfers the
inputs, `run_linearize()`; then 1-3 re-linearizations at new states; with a Newton solver present (complex-capable
linear vectors) a switch to complex-step mode with a complex state, and a switch back - and after every
linearization `run_apply_linear('fwd'|'rev')` of the root, of every sub-group and of every component (seed vectors
written by absolute name; internal inputs are pre-filled with garbage in fwd mode, as stale values are in real use)
is compared with

  * D @ v and D.T @ w, D = dense reference of that system built in the harness by plain accumulation of the
    recorded triplets (D[r, c] += val, columns of connected inputs remapped through NumPy positions of the
    connection's index chain and multiplied by the unit factor of the reference's own unit table; explicit
    components contribute -I), and
  * the result of the dictionary-Jacobian problem (differential oracle),

and `todense()` of the real dr/do and dr/di matrices is compared with D.  Reverse mode is not driven under complex
step (OpenMDAO never runs it there: Newton solves forward).

Matrix layer.  The real DenseMatrix / COOMatrix / CSCMatrix / CSRMatrix classes are driven directly with real
Subjac objects built from random metadata (dense, rows/cols with within- and across-subjac duplicates, diagonal,
scipy coo/csr/csc, src_indices with repeats and negatives, factors; also duplicate-free sets that keep DenseMatrix
on its plain-ndarray path) through `_build`, then update histories of length 1-5 (`Subjac.set_val`,
`Subjac.set_dtype` on dtype changes as `Jacobian._pre_update` does, `_pre_update/_update_from_submat/_post_update`)
with float <-> complex switches; after every update `todense()`, `_prod(v,'fwd')`, `_prod(w,'rev')` and a masked
`_prod` are compared with D (values and dtype kind).

Recorded mechanisms (keys `complex-switch:*`, see `_make_spec` and KNOWN_SHARE): three ways in which the dictionary
application / a scipy coo partial failed after the switch to complex.  The handling is adaptive: every system is
always driven; only when one of these mechanisms actually fires (exact exception signature, or white-box confirmed
stale views) it is reported in a KNOWN_SHARE of the cases and counted as `avoided:*` in the others.  On a tree where
they are repaired nothing is avoided and the complex phase runs at full rate.
"""
import random

import numpy as np

from omv.core import fingerprint
from omv.kit.gmon import exc_key, exc_where
from omv.kit.poison import poison

PROPERTY = 'C11'
LEVEL = 'exploration'
TECHNIQUE = ('runtime monitoring: apply_linear / Matrix._prod / todense of every assembled format compared with a '
             'dense reference accumulated in the harness and with the dictionary Jacobian, along update histories')
RULE = ('model layer: random model specs x planned partial-declaration styles x {dict, dense, csc, csr} x placement of '
        'the assembling solver {root, sub-systems, both, Newton linear solver} x history {linearize, 1-3 '
        're-linearizations, complex-step switch, switch back}; matrix layer: random sub-Jacobian sets (all Subjac '
        'classes, within/across duplicates, src_indices with repeats, factors) x 4 matrix classes x update '
        'histories with dtype switches and masks; distinct = structural description (wiring features, styles, '
        'placement, history); non-trivial = the reference has a src_indices mapping, a unit factor or duplicate '
        'entries')
MIN_JUDGED = {'quick': 700, 'thorough': 20000}
REQUIRED_COUNTERS = ['cell:dict/fwd', 'cell:dict/rev', 'cell:DenseMatrix/fwd', 'cell:DenseMatrix/rev',
                     'cell:CSCMatrix/fwd', 'cell:CSCMatrix/rev', 'cell:CSRMatrix/fwd', 'cell:CSRMatrix/rev',
                     'obs:dup-within-subjac', 'obs:dup-across-subjacs', 'obs:src_indices', 'obs:unit-factor',
                     'obs:dtype-switch', 'obs:relinearize', 'obs:todense-drdo', 'obs:todense-drdi',
                     'obs:comp-level-assembled', 'obs:subgroup-assembled', 'obs:root-assembled',
                     'obs:direct-solver', 'obs:krylov-solver', 'obs:newton-linear-solver',
                     'cell:COOMatrix/fwd', 'cell:COOMatrix/rev', 'obs:matrix-todense', 'obs:matrix-dtype-switch',
                     'obs:matrix-update>=2', 'obs:matrix-mask', 'obs:matrix-no-duplicates', 'cell:drdi-CSRMatrix/fwd', 'cell:drdi-CSRMatrix/rev']
ASSUMPTIONS = ['the harness components hand OpenMDAO exactly the triplets they record (own code)',
               'explicit components contribute -I for their own outputs (documented residual convention)',
               'tolerance 1e-12 * |D|_F * |v|_2 (round-off of <= ~100 products per row is ~1e-14 relative)',
               'DirectSolver + csr is documented as unsupported: csr is assembled through ScipyKrylov',
               'systems whose reference dr/do has cond > 1e12 are not factorised (case skipped)']
SHARD_TIMEOUT = {'quick': 1200, 'thorough': 5400}

OPTS = dict(p_index=0.75, p_units=0.5, p_chain2=0.3, p_param=0.4, p_matfree=0.0, p_sparse=0.75, p_cycle=0.4,
            p_implicit=0.4, p_scaling=0.2, solver_mix='any')
RTOL = 1e-12
# Share of the model cases in which one of the three recorded `complex-switch:*` mechanisms (chosen at random) is
# REPORTED as a violation when it fires; in all other cases a firing mechanism only counts `avoided:*` and the
# affected system is left out of the complex phase.  Nothing is decided from this constant about what is driven:
# every system is always driven (and scipy-coo partials are combined with dtype switches whenever the probe
# `_coo_switch_ok` passes), so once the defects are repaired the mechanisms are exercised at full rate, no
# `avoided:*` counter appears and the constant has no effect.  1.0 = report in every case, 0.0 = never report.
KNOWN_SHARE = 0.125
FORMATS = ('dict', 'dense', 'csc', 'csr')


def shards(tier, seed):
    n = 16 if tier == 'quick' else 64
    per = 16 if tier == 'quick' else 100
    out = [{'layer': 'model', 'seed': seed * 100000 + i * 1000, 'n': per} for i in range(n)]
    nm = 4 if tier == 'quick' else 16
    perm = 200 if tier == 'quick' else 1500
    out += [{'layer': 'matrix', 'seed': seed * 1000000 + 500000 + i * 10000, 'n': perm} for i in range(nm)]
    return out


def run_shard(shard, acc):
    for k in range(shard['n']):
        run_case({'layer': shard.get('layer', 'model'), 'seed': shard['seed'] + k}, acc)


def run_case(case, acc):
    if case.get('layer', 'model') == 'model':
        _model_case(case, acc)
    else:
        _matrix_case(case, acc)


# =====================================================================================================
# model layer
# =====================================================================================================
def _force_runonce(node):
    if 'comp' in node:
        return
    node['nl'] = {'type': 'runonce'}
    node['ln'] = {'type': 'runonce'}
    for ch in node['children']:
        _force_runonce(ch)


def _make_spec(seed):
    from omv.gen import models as G
    from omv.gen.c11comps import plan_styles
    rng = random.Random(seed)
    spec = G.gen_spec(rng, dict(OPTS))
    _force_runonce(spec['tree'])
    # An output with an array ref0 and a scalar ref (or vice versa) read through src_indices fails in
    # Group._compute_root_scale_factors (np.full(ref0.shape, ref) is taken before ref0 is indexed): a scaling
    # defect outside this property (C08).  Make both arrays so that array scaling stays in the workload.
    for c in spec['comps']:
        for o in c['outputs']:
            r, r0 = o.get('ref'), o.get('ref0')
            if isinstance(r, list) != isinstance(r0, list) and (r is not None or r0 is not None):
                if isinstance(r, list):
                    o['ref0'] = (np.zeros(o['shape']) + (0.0 if r0 is None else r0)).tolist()
                else:
                    o['ref'] = (np.zeros(o['shape']) + (1.0 if r is None else r)).tolist()
    plan = plan_styles(random.Random(seed * 3 + 1), spec)
    crng = random.Random(seed * 7 + 5)
    has_sub = any('group' in ch for ch in spec['tree']['children']) or \
        any(c['kind'] == 'imp' for c in spec['comps'])
    placement = crng.choice(['root', 'root', 'subs', 'root+subs', 'newton-ln'])
    if placement in ('subs', 'root+subs') and not has_sub:
        placement = 'root'
    cfg = {'placement': placement,
           'newton': placement == 'newton-ln' or crng.random() < 0.5,
           'solver': {'dense': crng.choice(['direct', 'krylov']), 'csc': crng.choice(['direct', 'direct', 'krylov']),
                      'csr': 'krylov'},
           'nrelin': crng.randint(1, 3),
           'double_linearize': crng.random() < 0.3}
    # Two recorded findings make a dtype switch fail loudly: a scipy coo_matrix partial (COOSubjac.set_dtype) and
    # the dictionary application of a rows/cols partial to complex vectors (np.bincount in OMCOOSubjac._apply_*).
    # A third one: a component's dictionary Jacobian keeps cached real views when an assembled ancestor switched
    # the shared values first (`_dict_under_assembled`).  While a mechanism still fires it is reported in a small
    # share of the cases only (KNOWN_SHARE), so that the dtype-switch histories of all other cases stay judgeable.
    cfg['known_share'] = crng.choice(['coo', 'rowcol', 'stale-views']) if crng.random() < KNOWN_SHARE else None
    if cfg['newton'] and cfg['known_share'] != 'coo' and not _coo_switch_ok():
        for ent in plan.values():
            for d in ent['pk'].values():
                if d['style'] == 'coo':
                    d['style'] = crng.choice(['csr', 'csc'])
    return spec, plan, cfg


_COO_OK = []


def _coo_switch_ok():
    """Workload probe (never a verdict): can a scipy-coo sub-Jacobian follow a dtype switch in this tree?  While it
    cannot (recorded finding `complex-switch:scipy-coo-partial`), such partials are combined with dtype switches in
    the 'coo' share of the cases only; a linearization that raises half way leaves nothing to judge."""
    if not _COO_OK:
        import scipy.sparse as sp
        from openmdao.jacobians.subjac import Subjac, SUBJAC_META_DEFAULTS
        try:
            meta = dict(SUBJAC_META_DEFAULTS, shape=(2, 2), val=sp.coo_matrix(np.eye(2)))
            cls = Subjac.get_subjac_class(meta)
            sj = cls(('a', 'b'), cls._update_instance_meta(meta, None, ('a', 'b')), slice(0, 2), slice(0, 2), True,
                     np.dtype(float))
            sj.set_dtype(np.dtype(complex))
            sj.set_dtype(np.dtype(float))
            _COO_OK.append(True)
        except Exception:
            _COO_OK.append(False)
    return _COO_OK[0]


def _mk_solver(om, kind):
    if kind == 'direct':
        return om.DirectSolver(assemble_jac=True)
    return om.ScipyKrylov(assemble_jac=True, iprint=-1, err_on_non_converge=False)


def _configure(om, prob, cfg, fmt, acc):
    """assign solvers after setup() (before final_setup)."""
    model = prob.model
    if cfg['newton']:
        nl = om.NewtonSolver(solve_subsystems=False, maxiter=1, iprint=-1, err_on_non_converge=False)
        nl.linesearch = None
        model.nonlinear_solver = nl
    if fmt == 'dict':
        return
    kind = cfg['solver'][fmt]
    pl = cfg['placement']
    if pl in ('root', 'root+subs'):
        model.linear_solver = _mk_solver(om, kind)
        model.options['assembled_jac_type'] = fmt
    if pl == 'newton-ln':
        model.nonlinear_solver.linear_solver = _mk_solver(om, kind)
        model.options['assembled_jac_type'] = fmt
    if pl in ('subs', 'root+subs'):
        for s in model.system_iter(include_self=False, recurse=True):
            if isinstance(s, om.Group) or isinstance(s, om.ImplicitComponent):
                s.linear_solver = _mk_solver(om, kind)
                s.options['assembled_jac_type'] = fmt


class _Tables:
    """name tables of one built problem, derived from the spec and R's wire map (own indexing, own units)."""

    def __init__(self, spec, prob):
        from omv.gen import models as G
        from omv.ref.flatmodel import FlatModel
        fm = FlatModel(spec)
        self.out_size, self.in_size, self.explicit_out = {}, {}, set()
        self.wire = {}        # abs input -> (abs src, positions, factor)
        self.comp_of = {}     # abs var -> comp path
        self.comp_local = {}  # comp path -> {local name: abs name}
        conns = prob.model._conn_global_abs_in2out      # used only to learn the names of the auto-IVC outputs
        params = {p['name']: p for p in spec['params']}
        for c in spec['comps']:
            path = spec['path'][c['name']]
            loc = {}
            for o in c['outputs']:
                a = path + '.' + o['name']
                self.out_size[a] = int(np.prod(o['shape']))
                loc[o['name']] = a
                self.comp_of[a] = path
                if c['kind'] != 'imp':
                    self.explicit_out.add(a)
            for i in c['inputs']:
                a = path + '.' + i['name']
                self.in_size[a] = int(np.prod(i['shape']))
                loc[i['name']] = a
                self.comp_of[a] = path
            self.comp_local[path] = loc
        self.has_idx = self.has_fac = False
        for c in spec['comps']:
            path = spec['path'][c['name']]
            for i in c['inputs']:
                a = path + '.' + i['name']
                src, pos, fac, _ = fm.wire[i['name']]
                if src in params:
                    asrc = conns[a]
                    self.out_size[asrc] = int(np.prod(params[src]['shape']))
                    self.explicit_out.add(asrc)
                    self.comp_of[asrc] = '_auto_ivc'
                else:
                    asrc = G.abs_name(spec, src)
                pos = np.asarray(pos).ravel()
                if pos.size != self.in_size[a]:
                    raise RuntimeError('harness: wire size mismatch for %s' % a)
                self.wire[a] = (asrc, pos, float(fac))
                if pos.size != self.out_size[asrc] or np.any(pos != np.arange(pos.size)):
                    self.has_idx = True
                if fac != 1.0:
                    self.has_fac = True

    def members(self, path):
        pre = path + '.' if path else ''
        outs = sorted(n for n in self.out_size if n.startswith(pre))
        ins = sorted(n for n in self.in_size if n.startswith(pre))
        oset = set(outs)
        ext = [k for k in ins if self.wire[k][0] not in oset]
        return outs, ins, ext


def _reference(tb, path, comps, dtype):
    """Dense reference (dr/do, dr/di) of the system at `path` by plain accumulation of recorded triplets."""
    outs, ins, ext = tb.members(path)
    ooff, off = {}, 0
    for n in outs:
        ooff[n] = off
        off += tb.out_size[n]
    no = off
    ioff, off = {}, 0
    for k in ext:
        ioff[k] = off
        off += tb.in_size[k]
    ni = off
    Do = np.zeros((no, no), dtype=dtype)
    Di = np.zeros((no, ni), dtype=dtype)
    cnt = np.zeros((no, no), dtype=int)
    dup_within = False
    for n in outs:
        if n in tb.explicit_out:
            a = ooff[n]
            idx = np.arange(a, a + tb.out_size[n])
            Do[idx, idx] += -1.0
            cnt[idx, idx] += 1
    pre = path + '.' if path else ''
    for cpath, comp in comps.items():
        if not (cpath == path or cpath.startswith(pre)):
            continue
        loc = tb.comp_local[cpath]
        for (of, wrt), (rows, cols, vals) in comp._c11_rec.items():
            r = ooff[loc[of]] + np.asarray(rows)
            awrt = loc[wrt]
            if awrt in tb.out_size:
                c = ooff[awrt] + np.asarray(cols)
                np.add.at(Do, (r, c), vals)
                sub = np.zeros_like(cnt)
                np.add.at(sub, (r, c), 1)
            else:
                asrc, pos, fac = tb.wire[awrt]
                if asrc in ooff:
                    c = ooff[asrc] + pos[np.asarray(cols)]
                    np.add.at(Do, (r, c), np.asarray(vals) * fac)
                    sub = np.zeros_like(cnt)
                    np.add.at(sub, (r, c), 1)
                else:
                    c = ioff[awrt] + np.asarray(cols)
                    np.add.at(Di, (r, c), vals)
                    continue
            if sub.max(initial=0) > 1:
                dup_within = True
            cnt += np.minimum(sub, 1)
    return {'outs': outs, 'ins': ins, 'ext': ext, 'ooff': ooff, 'ioff': ioff, 'Do': Do, 'Di': Di,
            'dup_within': dup_within, 'dup_across': bool(cnt.max(initial=0) > 1)}


def _vecs(seed, phase, names_sizes, cplx, lo=-1.0, hi=1.0, imag=1.0):
    """deterministic name -> vector (same for every format of a case)."""
    rng = np.random.default_rng([seed, phase])
    out = {}
    for n, sz in names_sizes:
        v = rng.uniform(lo, hi, sz)
        w = rng.uniform(-imag, imag, sz)
        out[n] = v + 1j * w if cplx else v
    return out


def _put(vec, name, val):
    vec._abs_get_val(name)[:] = val


def _get(vec, name):
    return np.array(vec._abs_get_val(name))


def _drive(s, mode, ref, vo, vi, vr):
    do, di, dr = s._doutputs, s._dinputs, s._dresiduals
    if mode == 'fwd':
        dr.set_val(0.0)
        for n in ref['outs']:
            _put(do, n, vo[n])
        for k in ref['ins']:            # internal inputs hold stale values in real use: they must not matter
            _put(di, k, vi[k])
        s.run_apply_linear('fwd')
        return np.concatenate([_get(dr, n) for n in ref['outs']] or [np.zeros(0)])
    do.set_val(0.0)
    di.set_val(0.0)
    for n in ref['outs']:
        _put(dr, n, vr[n])
    s.run_apply_linear('rev')
    return np.concatenate([_get(do, n) for n in ref['outs']] + [_get(di, k) for k in ref['ext']] or [np.zeros(0)])


def _expected(mode, ref, vo, vi, vr):
    if mode == 'fwd':
        x = np.concatenate([vo[n] for n in ref['outs']] or [np.zeros(0)])
        e = ref['Do'] @ x
        if ref['ext']:
            e = e + ref['Di'] @ np.concatenate([vi[k] for k in ref['ext']])
        nv = np.sqrt(np.linalg.norm(x) ** 2 + sum(np.linalg.norm(vi[k]) ** 2 for k in ref['ext']))
        return e, nv
    w = np.concatenate([vr[n] for n in ref['outs']] or [np.zeros(0)])
    e = ref['Do'].T @ w
    if ref['ext']:
        e = np.concatenate([e, ref['Di'].T @ w])
    return e, np.linalg.norm(w)


def _perm(slices, names, sizes):
    idx = []
    for n in names:
        sl = slices[n]
        if sl.stop - sl.start != sizes[n]:
            raise RuntimeError('harness: slice size mismatch for %s' % n)
        idx.append(np.arange(sl.start, sl.stop))
    return np.concatenate(idx) if idx else np.zeros(0, dtype=int)


def _todense(m):
    a = m.todense()
    return np.asarray(a)


def _model_case(case, acc):
    import openmdao.api as om
    from omv.gen import models as G
    from omv.gen.c11comps import make_factory, C11Explicit, C11Implicit
    seed = case['seed']
    spec, plan, cfg = _make_spec(seed)
    styles = sorted(set(d['style'] + ('-static' if d.get('static') else '') + ('-' + d['order'] if 'order' in d else '')
                        for e in plan.values() for d in e['pk'].values()))
    results = {}       # fmt -> {(phase, path, mode, j): vector}
    tols = {}
    bad = []           # (key, what)
    feats_case = set()
    nsys_judged = 0
    history = ['lin'] + ['relin'] * cfg['nrelin'] + (['complex', 'back'] if cfg['newton'] else [])

    def K(what, fmt, mode, phase, level, feats):
        return '%s:%s:%s:%s:%s:%s' % (what, fmt, mode, phase, level, '+'.join(sorted(feats)) or 'plain')

    with poison():
        for fmt in FORMATS:
            prob = None
            try:
                prob = G.build(spec, comp_factory=make_factory(plan))
                prob.setup(force_alloc_complex=True)
                _configure(om, prob, cfg, fmt, acc)
                prob.final_setup()
            except Exception as e:
                acc.viol(exc_key('setup', e),
                         '%s: %s [fmt=%s placement=%s]' % (type(e).__name__, str(e)[:300], fmt, cfg['placement']), case)
                if prob is not None:
                    prob.cleanup()
                return
            try:
                model = prob.model
                tb = _Tables(spec, prob)
                comps = {s.pathname: s for s in model.system_iter(recurse=True)
                         if isinstance(s, (C11Explicit, C11Implicit))}
                systems = [s for s in model.system_iter(include_self=True, recurse=True)
                           if isinstance(s, om.Group) or s.pathname in comps]
                sysmap = {s.pathname: s for s in systems}
                all_out = sorted(tb.out_size.items())
                all_in = sorted(tb.in_size.items())
                cplx_ok = bool(model._doutputs._alloc_complex)
                res = results[fmt] = {}
                tainted = False
                for ph, what in enumerate(history):
                    cplx = what == 'complex'
                    if cplx and not cplx_ok:
                        raise RuntimeError('harness: linear vectors not complex although a Newton solver is present')
                    if what == 'complex':
                        prob.set_complex_step_mode(True)
                    elif what == 'back':
                        prob.set_complex_step_mode(False)
                    # ---- new linearization point: same state for every format ------------------------
                    # (imaginary parts stay small: unit factors up to 1e3 feed them into cos/sin of the components)
                    u = _vecs(seed, 100 + ph, all_out, cplx, -1.5, 1.5, imag=1e-3)
                    for n, _ in all_out:
                        _put(model._outputs, n, u[n])
                    model.run_apply_nonlinear()          # transfers the inputs
                    for cobj in comps.values():
                        # triplets of non-static partials must come from THIS linearization
                        for key in list(cobj._c11_rec):
                            d = cobj._c11_plan['pk'].get('%s|%s' % key)
                            if d is None or not d.get('static'):
                                del cobj._c11_rec[key]
                    model.run_linearize()
                    if cfg['double_linearize'] and ph == 1:
                        model.run_linearize()
                    dtype = complex if cplx else float
                    seeds = [(_vecs(seed, 1000 + 10 * ph + j, all_out, cplx), _vecs(seed, 2000 + 10 * ph + j, all_in, cplx),
                              _vecs(seed, 3000 + 10 * ph + j, all_out, cplx)) for j in range(2)]
                    for s in systems:
                        path = s.pathname
                        ref = _reference(tb, path, comps, dtype)
                        if not ref['outs']:
                            continue
                        level = 'root' if path == '' else ('group' if isinstance(s, om.Group) else 'comp')
                        jac = s._assembled_jac if not isinstance(s, om.ExplicitComponent) else None
                        is_rc = _dict_rowcol(om, s, comps)
                        is_sv = _dict_under_assembled(om, s, comps, sysmap)
                        known_rc = cplx and is_rc
                        # white-box confirmation of the recorded stale-view mechanism: a Subjac of a dictionary
                        # Jacobian below `s` still holds REAL vector views although the vectors are complex now
                        known_sv = cplx and is_sv and _stale_real_views(om, s, comps)
                        if jac is not None:
                            cls = type(jac._dr_do_mtx).__name__ if jac._dr_do_mtx is not None else \
                                'drdi-only-' + type(jac._dr_di_mtx).__name__
                        else:
                            cls = 'dict'
                        feats = set()
                        if ref['dup_within']:
                            feats.add('dupw')
                        if ref['dup_across']:
                            feats.add('dupx')
                        nD = np.sqrt(np.linalg.norm(ref['Do']) ** 2 + np.linalg.norm(ref['Di']) ** 2)
                        # ---- todense of the real matrices ------------------------------------------------
                        if jac is not None:
                            if jac._dr_do_mtx is not None:
                                p_ = _perm(jac._output_slices, ref['outs'], tb.out_size)
                                M = _todense(jac._dr_do_mtx)
                                acc.count('obs:todense-drdo')
                                if M.shape != ref['Do'].shape or \
                                        not np.max(np.abs(M[np.ix_(p_, p_)] - ref['Do']), initial=0.0) <= RTOL * nD:
                                    bad.append((K('todense-drdo', cls, '-', what, level, feats),
                                                '%s %s dr/do todense differs from D' % (path or 'root', cls)))
                            if jac._dr_di_mtx is not None:
                                pr = _perm(jac._output_slices, ref['outs'], tb.out_size)
                                M = _todense(jac._dr_di_mtx)
                                Dfull = np.zeros(M.shape, dtype=dtype)
                                if ref['ext']:
                                    pc = _perm(jac._input_slices, ref['ext'], tb.in_size)
                                    Dfull[np.ix_(pr, pc)] = ref['Di']
                                acc.count('obs:todense-drdi')
                                if not np.max(np.abs(M - Dfull), initial=0.0) <= RTOL * nD:
                                    bad.append((K('todense-drdi', type(jac._dr_di_mtx).__name__, '-', what, level,
                                                  feats),
                                                '%s dr/di todense differs from D' % (path or 'root')))
                            acc.count({'root': 'obs:root-assembled', 'group': 'obs:subgroup-assembled',
                                       'comp': 'obs:comp-level-assembled'}[level])
                        # ---- products ---------------------------------------------------------------------
                        # a component without an assembled Jacobian applies the same dictionary Jacobian in all four
                        # problems: it is driven in the dictionary problem, and in the others only around the dtype
                        # switch (its sub-Jacobian values are shared with the assembled Jacobians above it)
                        nj = 2
                        if level == 'comp' and jac is None:
                            nj = 1 if (fmt == 'dict' or what in ('complex', 'back')) else 0
                        if tainted and not cplx and (is_rc or is_sv):
                            # a recorded failure interrupted such an application in the complex phase of this problem:
                            # the Subjac objects below kept their complex views, what follows proves nothing new
                            acc.count('avoided:dict-application-after-recorded-failure')
                            nj = 0
                        for j in range(nj):
                            vo, vi, vr = seeds[j]
                            # reverse mode never runs under complex step (Newton solves forward): fwd only there
                            for mode in (('fwd',) if cplx else ('fwd', 'rev')):
                                try:
                                    got = _drive(s, mode, ref, vo, vi, vr)
                                except Exception as e:
                                    tn, where = type(e).__name__, exc_where(e)
                                    share = None
                                    if where.startswith('subjac.py:_apply_'):
                                        if known_rc and tn == 'TypeError' and 'Cannot cast array data' in str(e):
                                            share, tag = 'rowcol', 'complex-switch:dict-apply-of-rowcol-partial'
                                        elif known_sv and tn == 'UFuncTypeError' and "ufunc 'add' output" in str(e):
                                            share, tag = 'stale-views', \
                                                'complex-switch:dict-apply-below-assembled-ancestor'
                                    if share is None:
                                        raise _ApplyError(exc_key(K('apply', cls, mode, what, level, ()), e),
                                                          '%s: %s' % (tn, str(e)[:200]))
                                    # recorded finding (the matvec / scaling contexts are exception safe, so the
                                    # problem stays usable): reported in its share of the cases, elsewhere the
                                    # system is only left out of the complex phase
                                    tainted = True
                                    if cfg['known_share'] == share:
                                        bad.append((exc_key(tag, e), '%s: %s [fmt=%s placement=%s]' %
                                                    (tn, str(e)[:200], fmt, cfg['placement'])))
                                    else:
                                        acc.count('avoided:' + tag)
                                    continue
                                exp, nv = _expected(mode, ref, vo, vi, vr)
                                tol = RTOL * nD * nv + 1e-300
                                if known_sv and not np.max(np.abs(got - exp), initial=0.0) <= tol and \
                                        np.max(np.abs(got.real - exp.real), initial=0.0) <= tol:
                                    # same recorded mechanism, silent form: value real + views real => the product
                                    # is formed from the real parts only (imaginary part of the result is lost)
                                    tainted = True
                                    tag = 'complex-switch:dict-apply-below-assembled-ancestor:imaginary-part-lost'
                                    if cfg['known_share'] == 'stale-views':
                                        bad.append((tag, '%s %s fwd: imaginary part of the product differs from D v '
                                                    '[fmt=%s placement=%s]' % (path, cls, fmt, cfg['placement'])))
                                    else:
                                        acc.count('avoided:' + tag)
                                    continue
                                res[(ph, path, mode, j)] = got
                                tols[(ph, path, mode, j)] = (tol, what, level, frozenset(feats))
                                acc.count('cell:%s/%s' % (cls, mode))
                                if jac is not None and jac._dr_di_mtx is not None and ref['ext']:
                                    acc.count('cell:drdi-%s/%s' % (type(jac._dr_di_mtx).__name__, mode))
                                err = np.max(np.abs(got - exp), initial=0.0)
                                if not err <= tol:
                                    bad.append((K('apply-vs-D', cls, mode, what, level, feats),
                                                '%s %s %s phase=%s: |apply - D v| = %.3e > %.1e' %
                                                (path or 'root', cls, mode, what, err, tol)))
                        nsys_judged += 1
                        feats_case |= feats
                        s._doutputs.set_val(0.0)
                        s._dinputs.set_val(0.0)
                        s._dresiduals.set_val(0.0)
                    if ph >= 1:
                        acc.count('obs:relinearize')
                    if what == 'back':
                        acc.count('obs:dtype-switch')
                # what this problem actually used
                for s in systems:
                    for sol, tag in ((s._linear_solver, ''), (getattr(s._nonlinear_solver, 'linear_solver', None),
                                                               'newton-')):
                        if sol is not None and sol.options['assemble_jac'] and sol._assembled_jac is not None:
                            if tag:
                                acc.count('obs:newton-linear-solver')
                            acc.count('obs:direct-solver' if isinstance(sol, om.DirectSolver) else 'obs:krylov-solver')
                if tb.has_idx:
                    acc.count('obs:src_indices')
                if tb.has_fac:
                    acc.count('obs:unit-factor')
            except _ApplyError as e:
                # the vectors of this problem may be left in an undefined state: judge what was collected so far
                bad.append((e.args[0], e.args[1] + ' [fmt=%s placement=%s]' % (fmt, cfg['placement'])))
            except Exception as e:
                msg = str(e)
                if msg.startswith('harness:'):
                    raise
                if 'ingular' in msg and _ill_conditioned(tb, comps, systems):
                    acc.skip('ill-conditioned-lu')
                    return
                tag = 'run:phase=%s' % what
                if what == 'complex' and 'coo_matrix' in msg and cfg['known_share'] == 'coo':
                    tag = 'complex-switch:scipy-coo-partial'
                acc.viol(exc_key(tag, e),
                         '%s: %s [fmt=%s placement=%s]' % (type(e).__name__, msg[:300], fmt, cfg['placement']), case)
                return
            finally:
                try:
                    prob.set_complex_step_mode(False)
                except Exception:
                    pass
                prob.cleanup()
    # ---- differential oracle: every assembled format against the dictionary Jacobian ----------------
    base = results['dict']
    for fmt in FORMATS[1:]:
        for key, got in results[fmt].items():
            if key not in base:
                continue
            tol, what, level, feats = tols[key]
            err = np.max(np.abs(got - base[key]), initial=0.0)
            if not err <= 2 * tol:
                bad.append((K('apply-vs-dict', fmt, key[2], what, level, feats),
                            '%s fmt=%s %s phase=%s: |assembled - dictionary| = %.3e > %.1e' %
                            (key[1] or 'root', fmt, key[2], what, err, 2 * tol)))
    if 'dupw' in feats_case:
        acc.count('obs:dup-within-subjac')
    if 'dupx' in feats_case:
        acc.count('obs:dup-across-subjacs')
    if bad:
        seen = set()
        first = True
        for key, what in bad:
            if key in seen:
                continue
            seen.add(key)
            acc.viol(key, what, case, new_case=first)
            first = False
        return
    nontriv = bool(feats_case) or tb.has_idx or tb.has_fac
    desc = {'placement': cfg['placement'], 'newton': cfg['newton'], 'solver': cfg['solver'], 'history': history,
            'styles': styles, 'features': sorted(feats_case), 'idx': tb.has_idx, 'fac': tb.has_fac,
            'ncomp': len(spec['comps'])}
    acc.ok(fingerprint(desc), nontrivial=nontriv, sample=dict(desc, seed=seed, systems=nsys_judged))


class _ApplyError(Exception):
    pass


def _dict_rowcol(om, s, comps):
    """True if apply_linear of `s` runs a dictionary Jacobian that holds a rows/cols (OMCOOSubjac) partial."""
    if not isinstance(s, om.ExplicitComponent) and s._assembled_jac is not None:
        return False
    if s.pathname in comps:
        return comps[s.pathname]._c11_has_rowcol
    if isinstance(s, om.Group):
        return any(_dict_rowcol(om, sub, comps) for sub in s._subsystems_myproc)
    return False


def _stale_real_views(om, s, comps):
    if not isinstance(s, om.ExplicitComponent) and s._assembled_jac is not None:
        return False
    if s.pathname in comps:
        jac = getattr(s, '_jacobian', None)
        subjacs = getattr(jac, '_subjacs', None) or {}
        for sj in subjacs.values():
            for v in (getattr(sj, '_in_view', None), getattr(sj, '_out_view', None), getattr(sj, '_res_view', None)):
                if v is not None and v.dtype.kind == 'f':
                    return True
        return False
    if isinstance(s, om.Group):
        return any(_stale_real_views(om, sub, comps) for sub in s._subsystems_myproc)
    return False


def _dict_under_assembled(om, s, comps, sysmap):
    """True if apply_linear of `s` runs the dictionary Jacobian of a component whose sub-Jacobian metadata is
    shared with the assembled Jacobian of an ancestor (that one switches the dtype of the shared values first,
    after which the component's Subjac objects keep their cached real views)."""
    if not isinstance(s, om.ExplicitComponent) and s._assembled_jac is not None:
        return False
    if s.pathname in comps:
        parts = s.pathname.split('.')
        return any(sysmap['.'.join(parts[:i])]._assembled_jac is not None for i in range(len(parts)))
    if isinstance(s, om.Group):
        return any(_dict_under_assembled(om, sub, comps, sysmap) for sub in s._subsystems_myproc)
    return False


def _ill_conditioned(tb, comps, systems):
    try:
        for s in systems:
            ref = _reference(tb, s.pathname, comps, complex)
            if ref['Do'].size and not np.linalg.cond(ref['Do']) < 1e12:
                return True
    except Exception:
        return True
    return False


# =====================================================================================================
# matrix layer
# =====================================================================================================
MATRIX_CLASSES = ('DenseMatrix', 'COOMatrix', 'CSCMatrix', 'CSRMatrix')


def _gen_matrix_case(seed):
    """JSON-able structural description of a sub-Jacobian set + update history (values come from seeded rngs)."""
    rng = random.Random(seed)
    kind = rng.choice(['drdo', 'drdo', 'drdi'])
    nof = rng.randint(1, 3)
    rsz = [rng.randint(1, 4) for _ in range(nof)]
    if kind == 'drdo':
        csz = list(rsz)                      # square: the columns are the same variables
    else:
        csz = [rng.randint(1, 4) for _ in range(rng.randint(1, 3))]
    history = []
    cplx_now = False
    for _ in range(rng.randint(1, 5)):
        if rng.random() < 0.3:
            cplx_now = not cplx_now
        history.append({'complex': cplx_now, 'change': rng.choice(['all', 'all', 'some', 'none'])})
    has_cplx = any(h['complex'] for h in history)
    subs = []
    nsub = rng.randint(1, 5)
    # 'nodup': no (row, col) position is written twice, so DenseMatrix keeps its plain ndarray (non-COO) path
    nodup = rng.random() < 0.35
    used = {}
    for k in range(nsub):
        ro = rng.randrange(nof)
        co = rng.randrange(len(csz))
        m, nsrc = rsz[ro], csz[co]
        sj = {'row': ro, 'col': co}
        if nodup:
            u = used.setdefault((ro, co), set())
            avail = [c for c in range(nsrc) if c not in u]
            if kind == 'drdo' and avail and (u or rng.random() < 0.7):
                pick = rng.sample(avail, rng.randint(1, len(avail)))
                u.update(pick)
                sj['src_indices'] = [c - nsrc if rng.random() < 0.5 else c for c in pick]
                n = len(pick)
            elif not u:
                u.update(range(nsrc))
                n = nsrc
            else:
                continue
        elif kind == 'drdo' and rng.random() < 0.55:
            L = rng.randint(1, 4)
            sj['src_indices'] = [rng.randrange(-nsrc, nsrc) for _ in range(L)]
            n = L
        else:
            n = nsrc
        if kind == 'drdo' and rng.random() < 0.4:
            sj['factor'] = rng.choice([1000.0, 0.3048, 0.001, 60.0, 2.5])
        styles = ['dense', 'rowcol', 'rowcol', 'csr', 'csc'] + \
            ([] if (has_cplx and not _coo_switch_ok()) else ['coo', 'coo_dup'])
        if m == n:
            styles.append('diag')
        st = rng.choice(styles)
        sj['style'] = st
        sj['n'] = n
        if st in ('rowcol', 'coo', 'coo_dup', 'csr', 'csc'):
            nnz = rng.randint(1, max(1, (m * n * 2) // 3))
            cells = [(r, c) for r in range(m) for c in range(n)]
            rng.shuffle(cells)
            ent = cells[:nnz]
            if st in ('rowcol', 'coo_dup') and rng.random() < 0.5 and not nodup:
                ent = ent + [rng.choice(ent) for _ in range(rng.randint(1, 2))]      # duplicates inside the subjac
                rng.shuffle(ent)
            sj['rows'] = [e[0] for e in ent]
            sj['cols'] = [e[1] for e in ent]
        sj['declared_val'] = rng.choice(['none', 'array', 'scalar']) if st in ('dense', 'rowcol', 'diag') else 'array'
        subs.append(sj)
    if not subs:
        return _gen_matrix_case(seed + 7919)
    return {'kind': kind, 'rsz': rsz, 'csz': csz, 'subs': subs, 'history': history, 'nodup': nodup,
            'mask': rng.choice([None, 'array', 'slice'])}


def _matrix_case(case, acc):
    import scipy.sparse as sp
    from openmdao.jacobians.subjac import Subjac, SUBJAC_META_DEFAULTS
    from openmdao.utils.indexer import indexer
    from openmdao.matrices.dense_matrix import DenseMatrix
    from openmdao.matrices.coo_matrix import COOMatrix
    from openmdao.matrices.csc_matrix import CSCMatrix
    from openmdao.matrices.csr_matrix import CSRMatrix
    classes = {'DenseMatrix': DenseMatrix, 'COOMatrix': COOMatrix, 'CSCMatrix': CSCMatrix, 'CSRMatrix': CSRMatrix}
    seed = case['seed']
    desc = _gen_matrix_case(seed)
    roff = np.concatenate([[0], np.cumsum(desc['rsz'])]).astype(int)
    coff = np.concatenate([[0], np.cumsum(desc['csz'])]).astype(int)
    nr, nc = int(roff[-1]), int(coff[-1])
    feats = set()

    def nvals(sj):
        m = desc['rsz'][sj['row']]
        if sj['style'] == 'dense':
            return m * sj['n']
        if sj['style'] == 'diag':
            return m
        return len(sj['rows'])

    def triplets(sj):
        m, n = desc['rsz'][sj['row']], sj['n']
        if sj['style'] == 'dense':
            return np.repeat(np.arange(m), n), np.tile(np.arange(n), m)
        if sj['style'] == 'diag':
            return np.arange(m), np.arange(m)
        return np.asarray(sj['rows']), np.asarray(sj['cols'])

    def to_val(sj, vals):
        m, n = desc['rsz'][sj['row']], sj['n']
        st = sj['style']
        if st == 'dense':
            return vals.reshape(m, n)
        if st in ('rowcol', 'diag'):
            return vals
        r, c = triplets(sj)
        M = sp.coo_matrix((vals, (r, c)), shape=(m, n))
        if st == 'csr':
            return M.tocsr()
        if st == 'csc':
            return M.tocsc()
        return M

    def make_subjacs(vals0):
        out = {}
        for k, sj in enumerate(desc['subs']):
            m, n = desc['rsz'][sj['row']], sj['n']
            meta = dict(SUBJAC_META_DEFAULTS)
            meta['shape'] = (m, n)
            st = sj['style']
            r, c = triplets(sj)
            dv = sj['declared_val']
            if st == 'dense':
                meta['val'] = None if dv == 'none' else (0.5 if dv == 'scalar' else vals0[k].reshape(m, n))
            elif st == 'rowcol':
                meta['rows'], meta['cols'] = r.copy(), c.copy()
                meta['val'] = None if dv == 'none' else (0.5 if dv == 'scalar' else vals0[k])
            elif st == 'diag':
                meta['diagonal'] = True
                meta['val'] = None if dv == 'none' else (0.5 if dv == 'scalar' else vals0[k])
            else:
                meta['val'] = to_val(sj, vals0[k])
            cls = Subjac.get_subjac_class(meta)
            meta = cls._update_instance_meta(meta, None, ('of%d' % k, 'wrt%d' % k))
            src_inds = None
            if 'src_indices' in sj:
                nsrc = desc['csz'][sj['col']]
                src_inds = [indexer(np.array(sj['src_indices'], dtype=int), src_shape=(nsrc,), flat_src=True)]
            key = ('of%d' % sj['row'], 'in%d' % k)
            out[key] = (cls(key, meta, slice(int(roff[sj['row']]), int(roff[sj['row'] + 1])),
                            slice(int(coff[sj['col']]), int(coff[sj['col'] + 1])), False, np.dtype(float), src_inds,
                            sj.get('factor'), 'src%d' % sj['col']), k)
        return out

    def reference(cur, dtype):
        D = np.zeros((nr, nc), dtype=dtype)
        cnt = np.zeros((nr, nc), dtype=int)
        for k, sj in enumerate(desc['subs']):
            r, c = triplets(sj)
            if 'src_indices' in sj:
                nsrc = desc['csz'][sj['col']]
                c = np.arange(nsrc)[np.array(sj['src_indices'], dtype=int)][c]        # NumPy positions
                feats.add('srcidx')
            v = cur[k] * sj.get('factor', 1.0)
            if 'factor' in sj:
                feats.add('factor')
            np.add.at(D, (roff[sj['row']] + r, coff[sj['col']] + c), v)
            sub = np.zeros_like(cnt)
            np.add.at(sub, (roff[sj['row']] + r, coff[sj['col']] + c), 1)
            if sub.max() > 1:
                feats.add('dupw')
            cnt += np.minimum(sub, 1)
        if cnt.max(initial=0) > 1:
            feats.add('dupx')
        return D

    def K(what, cls, phase):
        return 'matrix:%s:%s:%s:%s' % (what, cls, phase, '+'.join(sorted(feats)) or 'plain')

    vrng = np.random.default_rng([seed, 1])
    vals0 = [vrng.uniform(-2, 2, nvals(sj)) for sj in desc['subs']]
    bad = []
    for cname in MATRIX_CLASSES:
        vr = np.random.default_rng([seed, 2])           # same value history for every class
        try:
            subjacs = make_subjacs(vals0)
            submats = {k: v[0] for k, v in subjacs.items()}
            M = classes[cname](submats)
            # SplitJacobian builds with complex when it is created under complex step
            M._build(nr, nc, complex if desc['history'][0]['complex'] else float)
        except Exception as e:
            acc.viol(exc_key('matrix:build:%s' % cname, e), '%s: %s' % (type(e).__name__, str(e)[:200]), case)
            return
        # current values as the Subjac objects hold them after construction
        cur = []
        for k, sj in enumerate(desc['subs']):
            dv = sj['declared_val']
            cur.append(np.zeros(nvals(sj)) if dv == 'none' else
                       (np.full(nvals(sj), 0.5) if dv == 'scalar' else vals0[k].copy()))
        jdtype = 'f'
        try:
            for step, h in enumerate(desc['history']):
                cplx = h['complex']
                dtype = np.dtype(complex if cplx else float)
                phase = ('complex' if cplx else 'real') + ('-first' if step == 0 else '')
                if (jdtype == 'c') != cplx:
                    phase += '-after-switch'
                    for sjo, k in subjacs.values():           # what Jacobian._pre_update does on a dtype change
                        sjo.set_dtype(dtype)
                    jdtype = 'c' if cplx else 'f'
                    if not cplx:
                        cur = [c_.real.copy() for c_ in cur]
                    acc.count('obs:matrix-dtype-switch')
                for (sjo, k) in subjacs.values():
                    sj = desc['subs'][k]
                    ch = h['change'] == 'all' or (h['change'] == 'some' and vr.random() < 0.5)
                    nv = vr.uniform(-2, 2, nvals(sj))
                    if cplx:
                        nv = nv + 1j * vr.uniform(-2, 2, nvals(sj))
                    if ch:
                        sjo.set_val(to_val(sj, nv))
                        cur[k] = nv
                M._pre_update(dtype)
                for sjo, k in subjacs.values():
                    M._update_from_submat(sjo, None)
                M._post_update()
                if step >= 1:
                    acc.count('obs:matrix-update>=2')
                D = reference(cur, dtype)
                nD = np.linalg.norm(D)
                T = np.asarray(M.todense())
                acc.count('obs:matrix-todense')
                if T.shape != D.shape or not np.max(np.abs(T - D), initial=0.0) <= RTOL * nD:
                    bad.append((K('todense', cname, phase), '%s todense differs from D at step %d' % (cname, step)))
                if T.dtype.kind != dtype.kind:
                    # a real Jacobian that keeps a complex matrix adds complex products into real vectors
                    bad.append((K('todense-dtype', cname, phase), '%s todense dtype %s after _pre_update(%s)' %
                                (cname, T.dtype, dtype)))
                v = vr.uniform(-1, 1, nc) + (1j * vr.uniform(-1, 1, nc) if cplx else 0.0)
                w = vr.uniform(-1, 1, nr) + (1j * vr.uniform(-1, 1, nr) if cplx else 0.0)
                mask = None
                if desc['mask'] == 'array':
                    mask = np.unique(vr.integers(0, nc, size=max(1, nc // 2)))
                elif desc['mask'] == 'slice':
                    a = int(vr.integers(0, nc))
                    mask = slice(a, int(vr.integers(a, nc + 1)))
                for mode, x, mk in (('fwd', v, None), ('rev', w, None), ('fwd', v, mask)):
                    x0 = x.copy()
                    got = np.asarray(M._prod(x, mode, mk) if mk is not None else M._prod(x, mode)).ravel()
                    xm = x0.copy()
                    if mk is not None:
                        xm[mk] = 0.0
                        acc.count('obs:matrix-mask')
                    exp = D @ xm if mode == 'fwd' else D.T @ xm
                    acc.count('cell:%s/%s' % (cname, mode))
                    tol = RTOL * nD * np.linalg.norm(x0) + 1e-300
                    if got.shape != exp.shape or not np.max(np.abs(got - exp), initial=0.0) <= tol:
                        bad.append((K('prod-%s%s' % (mode, '-masked' if mk is not None else ''), cname, phase),
                                    '%s _prod %s differs from D at step %d' % (cname, mode, step)))
                    if got.dtype.kind != dtype.kind:
                        bad.append((K('prod-dtype', cname, phase), '%s _prod dtype %s after _pre_update(%s)' %
                                    (cname, got.dtype, dtype)))
                    if not np.array_equal(x, x0):
                        bad.append((K('prod-modifies-input', cname, phase), '%s _prod changed its input' % cname))
        except Exception as e:
            bad.append((exc_key('matrix:update:%s' % cname, e), '%s: %s' % (type(e).__name__, str(e)[:200])))
    for f_, cn in (('dupw', 'obs:dup-within-subjac'), ('dupx', 'obs:dup-across-subjacs'), ('srcidx', 'obs:src_indices'),
                   ('factor', 'obs:unit-factor')):
        if f_ in feats:
            acc.count(cn)
    if bad:
        seen, first = set(), True
        for key, what in bad:
            if key in seen:
                continue
            seen.add(key)
            acc.viol(key, what, case, new_case=first)
            first = False
        return
    if not (feats & {'dupw', 'dupx'}):
        acc.count('obs:matrix-no-duplicates')
    d2 = {'kind': desc['kind'], 'styles': sorted(set(sj['style'] for sj in desc['subs'])), 'feats': sorted(feats),
          'hist': [(h['complex'], h['change']) for h in desc['history']], 'mask': desc['mask'],
          'layout': [desc['rsz'], desc['csz']], 'nsub': len(desc['subs'])}
    acc.ok(fingerprint(d2), nontrivial=bool(feats) or len(desc['subs']) > 1, sample=dict(d2, seed=seed, layer='matrix'))
