"""C06 - Unit conversion is a consistent affine algebra.

Monitor: reference-model comparison at openmdao.utils.units.{_find_unit, is_compatible, unit_conversion,
convert_units, simplify_unit}.  The reference (omv/ref/unitexpr.py) reads unit_library.ini with its own
parser and evaluates unit expressions with its own tokenizer in exact rational arithmetic (times a power
of pi), SI/IEC prefixes come from a hard-coded table.

Case kinds
  unit      every library unit: factor / powers / offset vs the reference, simplify_unit of its name
  pair      every ordered pair of (library + some prefixed) units: is_compatible == (same dimension)
            == (conversion does not raise); conversion tuple, converted values and the round trip A->B->A
  triple    every compatible triple of library units: A->B->C == A->C
  composite random expressions (products, quotients, integer powers, parentheses, prefixes, numeric
            constants, square roots of squares), each evaluated in a freshly imported library: factor and
            powers vs the reference, conversion into a second random expression of the same dimension,
            simplify_unit(e) must parse back to the same (powers, factor, offset), and the conversion between
            e and simplify_unit(e) through is_compatible / unit_conversion / convert_units must be the identity
  roots     inverse-integer exponents (**0.5 .5 (1/2) (1./3) 0.25 0.2 (1/6), also negative) of radicands whose
            DIMENSION is a perfect power but whose written form is not: products of different units of one
            dimension ((ft*inch)**0.5, ((ft/s)*(inch/min))**0.5, (ft*inch/(s*min))**0.5), derived units completed
            to a perfect power ((J/kg)**0.5, (Pa/(kg/m**3))**0.5, (ha)**0.5), numeric constants / reciprocals
            ((4*m**2)**0.5, (1/s**2)**0.5), roots inside roots; bare or embedded in a larger expression.  Judged
            like `composite`; the reference keeps irrational roots exact as Q**(1/d)
  declared  root and ordinary composite expressions used as `units=` of an IndepVarComp output and an ExecComp
            output of a two-component model: get_val in the declared units, in base units written from the
            reference's powers, in a second expression, and through a connection into a base-unit input
  order     the same lookup in a fresh library and after a shuffled prelude of other lookups must give the
            same validity, factor and powers (the unit table and the cache are mutated by prefix expansion)

Tolerances: the reference is exact; the implementation performs `ops` floating point operations to build a
factor (counted by the reference while it evaluates the same definition), each with relative error
<= 2**-53, so |f_impl - f_ref| <= (ops + 3) * 2**-52 * |f_ref|.  A conversion (v + offset) * factor adds a
handful of roundings relative to the magnitudes that enter: (|v| + |offset_A|) * |f_A/f_B| + |offset_B|.
"""
import itertools
import math
import os
import random
import re

from omv.core import fingerprint, repo_root
from omv.ref.unitexpr import Library, RefError, convert, PREFIXES

PROPERTY = 'C06'
LEVEL = 'exploration'
TECHNIQUE = 'runtime monitoring: exact-arithmetic reference of the unit library and of unit expressions'
RULE = ('all 140 library units; all ordered pairs of library units plus 34 prefixed units (values 0, +-1, 3.7, '
        '1e12, -1e-12, 273.15, -459.67); all compatible triples of library units; random composite expressions '
        'of depth <= 4 over library and prefixed atoms with * / ** ( ) numeric constants and (x**2)**0.5; '
        'roots of degree 2..6 (positive and negative inverse-integer exponents in 7 spellings) of products of '
        'different same-dimension units, of derived units completed to a perfect power, of radicands with numeric '
        'constants / leading 1/, and of roots, bare or embedded; the same expressions declared as units of model '
        'variables and read back; '
        'order-independence of prefixed lookups after random preludes; distinct = distinct expression strings / '
        'unit tuples; non-trivial = compatible pair of different units, triple, accepted composite, order case')
LEVEL_TEXT = ('exhaustive over the shipped unit library for single units, pairs and compatible triples; random '
              'exploration for composite expressions and lookup orders')
ASSUMPTIONS = ['the reference semantics of names: a library unit name wins; otherwise a one-letter, then a '
               'two-letter SI/IEC prefix in front of a LIBRARY unit (no compound prefixes); `pi` is the constant '
               '(documented grammar, docs features/core_features/working_with_components/units.ipynb: numbers and '
               'known units = entries of [base_units]/[units], optionally prefixed, combined with * / **)',
               'expressions OpenMDAO rejects (returns None / raises) are outside the property and only counted',
               'expressions whose factor, or the factor of one of their sub-expressions, leaves [1e-250, 1e250] are skipped (floating-point over/underflow is not the subject)',
               'composite cases run in a freshly imported library, so only `order` cases depend on history',
               'float-literal integer powers (m**2.0) are rejected by OpenMDAO by design and not generated',
               'a root is evaluated by the implementation as factor ** float(1/r): unless r is a power of two the '
               'exponent carries a rounding of 2**-53/r that is amplified by |ln(factor)|; the tolerance includes it',
               'declared-variable cases are run only for expressions whose simplify_unit result was judged correct '
               '(otherwise the simplify violation is the report) and whose dimension is not empty']
MIN_JUDGED = {'quick': 20000, 'thorough': 40000}
REQUIRED_COUNTERS = ['obs:unit', 'obs:pair:compatible', 'obs:pair:incompatible-raises', 'obs:pair:offset',
                     'obs:roundtrip', 'obs:triple', 'obs:triple:offset', 'obs:composite', 'obs:composite:prefixed',
                     'obs:composite:power', 'obs:composite:root', 'obs:composite:number', 'obs:composite:convert',
                     'obs:simplify', 'obs:simplify:none', 'obs:simplify:convert-to-simplified',
                     'obs:composite:root-of-product', 'obs:composite:root:mixed-factors',
                     'obs:composite:root:mixed-fraction', 'obs:composite:root:derived', 'obs:composite:root:number',
                     'obs:composite:root:nested', 'obs:composite:root:negative', 'obs:composite:root:embedded',
                     'obs:root:irrational-factor', 'obs:root:result-has-denominator', 'obs:declared', 'obs:order', 'obs:order:da-prefix',
                     'obs:order:compound-prefix', 'obs:order:prefixed', 'obs:order:underscore-unit-with-prefixed',
                     'obs:order:exponent-literal-with-prefixed']
SHARD_TIMEOUT = {'quick': 600, 'thorough': 2400}

EPS = 2.0 ** -52
VALUES = [0.0, 1.0, -1.0, 3.7, 1e12, -1e-12, 273.15, -459.67]
EXTRA_UNITS = ['km', 'mm', 'cm', 'dm', 'nm', 'um', 'ms', 'us', 'ns', 'kPa', 'MPa', 'hPa', 'mbar', 'uF', 'GHz',
               'kHz', 'Kibyte', 'Mibyte', 'kbyte', 'kW', 'MW', 'mg', 'ug', 'kN', 'daN', 'dam', 'kJ', 'MJ', 'mA',
               'kV', 'mL', 'dL', 'mrad', 'kUSD']

_STATE = {}
# a simplified name made of numeric literals and operators only (no unit name left)
_BARE_NUMBER = re.compile(r'^(?:\d+\.?\d*|\.\d+)(?:[eE][+-]?\d+)?(?:(?:\*\*|[*/])-?(?:\d+\.?\d*|\.\d+)(?:[eE][+-]?\d+)?)*$')


def _lib():
    if 'L' not in _STATE:
        _STATE['ini'] = os.path.join(repo_root(), 'openmdao', 'utils', 'unit_library.ini')
        _STATE['L'] = Library(_STATE['ini'])
    return _STATE['L']


def _fresh():
    """Re-import the shipped library: empty cache, pristine unit table."""
    import openmdao.utils.units as U
    _lib()
    with open(_STATE['ini']) as f:
        U.import_library(f)


def _close(a, b, tol):
    return a == b or abs(a - b) <= tol


# ----------------------------------------------------------------------------------------------
# unit / pair / triple
# ----------------------------------------------------------------------------------------------
def judge_unit(case, acc):
    import openmdao.utils.units as U
    L = _lib()
    n = case['unit']
    r = L.resolve(n)
    acc.count('obs:unit')
    bad = False
    try:
        pu = U._find_unit(n, error=True)
    except Exception as e:
        acc.viol('library-unit:lookup-raises-%s' % type(e).__name__, '%s: %s' % (n, str(e)[:160]), case)
        return
    if [float(x) for x in pu._powers] != [float(x) for x in r.powers]:
        acc.viol('library-unit:powers', '%s powers %s, reference %s' % (n, pu._powers, list(r.powers)), case)
        bad = True
    if not _close(pu._factor, r.factor(), (r.ops + 3) * EPS * abs(r.factor())):
        acc.viol('library-unit:factor', '%s factor %r, reference %r' % (n, pu._factor, r.factor()), case,
                 new_case=not bad)
        bad = True
    if pu._offset != float(r.offset):
        acc.viol('library-unit:offset', '%s offset %r, reference %r' % (n, pu._offset, float(r.offset)), case,
                 new_case=not bad)
        bad = True
    bad = _judge_simplify(n, r, 'library-unit', case, acc, bad) or bad
    if not bad:
        acc.ok(fingerprint(['unit', n]))


def _judge_simplify(expr, r, cls, case, acc, bad):
    """simplify_unit(expr) must parse back to the same powers / factor / offset."""
    import openmdao.utils.units as U
    acc.count('obs:simplify')
    try:
        s = U.simplify_unit(expr)
    except Exception as e:
        acc.viol('simplify:%s:raises-%s' % (cls, type(e).__name__), 'simplify_unit(%r): %s' % (expr, str(e)[:160]),
                 case, new_case=not bad)
        return True
    if s is None:
        acc.count('obs:simplify:none')
        if any(r.powers) or r.offset or not _close(r.factor(), 1.0, (r.ops + 3) * EPS):
            acc.viol('simplify:%s:none-for-non-unity' % cls, 'simplify_unit(%r) is None but the unit has factor %r '
                     'powers %s' % (expr, r.factor(), list(r.powers)), case, new_case=not bad)
            return True
        return False
    try:
        u2 = U._find_unit(s)
    except Exception as e:
        acc.viol('simplify:%s:result-unparseable' % cls, 'simplify_unit(%r) = %r, which raises %s: %s' %
                 (expr, s, type(e).__name__, str(e)[:120]), case, new_case=not bad)
        return True
    if u2 is None:
        if _BARE_NUMBER.match(s):
            # one mechanism whatever the input class: every unit NAME cancelled, only numeric constants
            # are left in the name ('1000*m/m' -> '1000'), and a bare number is not accepted as a unit string
            cls = 'units-cancel-to-bare-number'
        acc.viol('simplify:%s:result-not-a-unit' % cls,'simplify_unit(%r) = %r, which is not a valid unit' %
                 (expr, s), case, new_case=not bad)
        return True
    out = False
    # the simplified string regroups powers (x**3)**4 -> x**12: its own evaluation may pass through
    # sub-normal / overflowing intermediates although the original did not; that is floating point, not a defect
    ops = 2 * r.ops + 6
    try:
        rs = _lib().evaluate(s)
        ops = r.ops + rs.ops + 6
        if rs.mag > 250:
            acc.count('guard:simplified-intermediate-out-of-range')
            return False
    except (RefError, ZeroDivisionError, OverflowError):
        pass
    if [float(x) for x in u2._powers] != [float(x) for x in r.powers]:
        acc.viol('simplify:%s:powers' % cls, 'simplify_unit(%r) = %r has powers %s, expected %s' %
                 (expr, s, u2._powers, list(r.powers)), case, new_case=not (bad or out))
        out = True
    if not _close(u2._factor, r.factor(), ops * EPS * abs(r.factor())):
        acc.viol('simplify:%s:factor' % cls, 'simplify_unit(%r) = %r has factor %r, expected %r' %
                 (expr, s, u2._factor, r.factor()), case, new_case=not (bad or out))
        out = True
    if u2._offset != float(r.offset):
        acc.viol('simplify:%s:offset' % cls, 'simplify_unit(%r) = %r has offset %r, expected %r' %
                 (expr, s, u2._offset, float(r.offset)), case, new_case=not (bad or out))
        out = True
    if not out:
        # the same statement through the public conversion API: the original string and the simplified string
        # are the same unit, so the conversion between them is the identity (both factors carry <= ops roundings;
        # offset = o - o * f_s / f_e)
        acc.count('obs:simplify:convert-to-simplified')
        try:
            comp = U.is_compatible(expr, s)
            fac, off = U.unit_conversion(expr, s)
            back = U.convert_units(3.7, s, expr)
        except Exception as e:
            acc.viol('simplify:%s:conversion-to-simplified-raises-%s' % (cls, type(e).__name__),
                     'simplify_unit(%r) = %r, converting between the two: %s' % (expr, s, str(e)[:160]), case,
                     new_case=not bad)
            return True
        tol = (ops + 4) * EPS
        if not comp or not _close(fac, 1.0, tol) or abs(off) > tol * abs(float(r.offset)) or \
                not _close(back, 3.7, (3.7 + 2 * abs(float(r.offset))) * 2 * tol):
            acc.viol('simplify:%s:conversion-to-simplified' % cls, 'simplify_unit(%r) = %r, but is_compatible=%s, '
                     'unit_conversion=(%r, %r), 3.7 converted back = %r' % (expr, s, comp, fac, off, back), case,
                     new_case=not bad)
            out = True
    return out


def _ucls(*rs):
    return ':offset-unit' if any(r.offset for r in rs) else ''


def judge_pair(case, acc):
    import openmdao.utils.units as U
    L = _lib()
    a, b = case['a'], case['b']
    ra, rb = L.resolve(a), L.resolve(b)
    compat_ref = ra.powers == rb.powers
    bad = False
    fp = fingerprint(['pair', a, b])

    def V(key, what):
        nonlocal bad
        acc.viol(key, what, case, new_case=not bad)
        bad = True

    try:
        c1 = U.is_compatible(a, b)
        c2 = U.is_compatible(b, a)
    except Exception as e:
        V('pair:is_compatible-raises-%s' % type(e).__name__, '%s,%s: %s' % (a, b, str(e)[:160]))
        return
    if bool(c1) != compat_ref:
        V('pair:is_compatible-vs-dimension', 'is_compatible(%r,%r)=%s but dimensions %s' %
          (a, b, c1, 'agree' if compat_ref else 'differ'))
    if bool(c1) != bool(c2):
        V('pair:is_compatible-asymmetric', 'is_compatible(%r,%r)=%s, reversed %s' % (a, b, c1, c2))
    # conversion succeeds exactly when compatible
    try:
        fac, off = U.unit_conversion(a, b)
        raised = None
    except Exception as e:
        raised = e
    if compat_ref:
        acc.count('obs:pair:compatible')
        if ra.offset or rb.offset:
            acc.count('obs:pair:offset')
        if raised is not None:
            V('pair:conversion-raises-on-compatible' + _ucls(ra, rb), 'unit_conversion(%r,%r) raised %s: %s' %
              (a, b, type(raised).__name__, str(raised)[:120]))
        else:
            for v in VALUES:
                ref, tol, _ = convert(v, ra, rb)
                try:
                    got = U.convert_units(v, a, b)
                except Exception as e:
                    V('pair:convert_units-raises' + _ucls(ra, rb), 'convert_units(%r,%r,%r): %s' % (v, a, b, e))
                    break
                if not _close(got, ref, tol):
                    V('pair:converted-value' + _ucls(ra, rb), 'convert_units(%r,%r,%r)=%r, reference %r (tol %.3g)' %
                      (v, a, b, got, ref, tol))
                    break
                if not _close((v + off) * fac, ref, tol):
                    V('pair:conversion-tuple' + _ucls(ra, rb), 'unit_conversion(%r,%r)=(%r,%r) maps %r to %r, '
                      'reference %r' % (a, b, fac, off, v, (v + off) * fac, ref))
                    break
                # round trip
                acc.count('obs:roundtrip')
                back = U.convert_units(got, b, a)
                _, tol2, _ = convert(ref, rb, ra)
                ratio = abs(float(rb.q / ra.q)) * math.pi ** (rb.k - ra.k)
                if not _close(back, v, tol * ratio + tol2):
                    V('pair:round-trip' + _ucls(ra, rb), '%r %s -> %s -> %s gives %r (tol %.3g)' %
                      (v, a, b, a, back, tol * ratio + tol2))
                    break
    else:
        if raised is None:
            V('pair:conversion-accepts-incompatible', 'unit_conversion(%r,%r) returned (%r,%r)' % (a, b, fac, off))
        else:
            if isinstance(raised, TypeError):
                acc.count('obs:pair:incompatible-raises')
            else:
                V('pair:incompatible-raises-%s' % type(raised).__name__, '%s,%s: %s' % (a, b, str(raised)[:120]))
            try:
                U.convert_units(1.0, a, b)
                V('pair:convert_units-accepts-incompatible', 'convert_units(1.0,%r,%r) did not raise' % (a, b))
            except TypeError:
                pass
            except Exception as e:
                V('pair:incompatible-raises-%s' % type(e).__name__, str(e)[:120])
    if not bad:
        acc.ok(fp, nontrivial=(compat_ref and a != b))


def judge_triple(case, acc):
    import openmdao.utils.units as U
    L = _lib()
    a, b, c = case['a'], case['b'], case['c']
    ra, rb, rc = L.resolve(a), L.resolve(b), L.resolve(c)
    acc.count('obs:triple')
    if ra.offset or rb.offset or rc.offset:
        acc.count('obs:triple:offset')
    for v in case.get('values', VALUES[:5]):
        try:
            vb = U.convert_units(v, a, b)
            vc = U.convert_units(vb, b, c)
            direct = U.convert_units(v, a, c)
        except Exception as e:
            acc.viol('triple:raises-%s' % type(e).__name__, '%s->%s->%s: %s' % (a, b, c, str(e)[:120]), case)
            return
        refb, tolb, _ = convert(v, ra, rb)
        refc, tolc, _ = convert(refb, rb, rc)
        refd, told, _ = convert(v, ra, rc)
        ratio = abs(float(rb.q / rc.q)) * math.pi ** (rb.k - rc.k)
        tol = tolb * ratio + tolc + told
        if not _close(vc, direct, tol):
            acc.viol('triple:composition' + _ucls(ra, rb, rc), '%r %s->%s->%s = %r but %s->%s = %r (tol %.3g)' %
                     (v, a, b, c, vc, a, c, direct, tol), case)
            return
        if not _close(direct, refd, told):
            acc.viol('triple:direct-vs-reference' + _ucls(ra, rc), '%r %s->%s = %r, reference %r' %
                     (v, a, c, direct, refd), case)
            return
    acc.ok(fingerprint(['triple', a, b, c]))


# ----------------------------------------------------------------------------------------------
# composite expressions
# ----------------------------------------------------------------------------------------------
def _atoms(L):
    if 'atoms' not in _STATE:
        plain = [n for n in L.library_names() if not L.resolve(n).offset]
        pref = []
        for p in PREFIXES:
            for n in plain:
                name = p + n
                if L.is_library_unit(name):
                    continue
                # the documented resolution must give back exactly this (prefix, unit)
                try:
                    r = L.resolve(name)
                except RefError:
                    continue
                if r.q == L.resolve(n).q * PREFIXES[p]:
                    pref.append(name)
        _STATE['atoms'] = (plain, pref)
    return _STATE['atoms']


def gen_expr(rng, L, depth, feats):
    plain, pref = _atoms(L)
    r = rng.random()
    if depth == 0 or r < 0.3:
        if rng.random() < 0.35:
            feats.add('prefixed')
            name = rng.choice(pref)
            if name.startswith('da') and name[2:] in plain:
                feats.add('da-prefix')
            return name
        return rng.choice(plain)
    if r < 0.5:
        return gen_expr(rng, L, depth - 1, feats) + '*' + gen_expr(rng, L, depth - 1, feats)
    if r < 0.68:
        feats.add('quotient')
        d = gen_expr(rng, L, depth - 1, feats)
        if any(ch in d for ch in '*/'):
            d = '(' + d + ')'
            feats.add('paren')
        return gen_expr(rng, L, depth - 1, feats) + '/' + d
    if r < 0.82:
        feats.add('power')
        b = gen_expr(rng, L, depth - 1, feats)
        if any(ch in b for ch in '*/'):
            b = '(' + b + ')'
            feats.add('paren')
        return b + '**' + str(rng.choice([-3, -2, -1, 2, 3]))
    if r < 0.9:
        feats.add('number')
        k = rng.choice(['2', '1e3', '0.5', '1.e-2', '1000', '3.25'])
        inner = gen_expr(rng, L, depth - 1, feats)
        return rng.choice([k + '*' + inner, inner + '*' + k, inner + '/' + k, k + '/(' + inner + ')'])
    if r < 0.96:
        feats.add('root')
        b = gen_expr(rng, L, depth - 1, feats)
        if any(ch in b for ch in '*/'):
            b = '(' + b + ')'
        return '(' + b + '**2)**0.5'
    if r < 0.98:
        feats.add('unity')
        x = gen_expr(rng, L, 0, feats)
        return rng.choice([x + '/' + x, x + '*s/(' + x + '*s)'])
    feats.add('paren')
    return '(' + gen_expr(rng, L, depth - 1, feats) + ')'


def _same_dim_variant(rng, L, expr):
    """A second expression of the same dimension: swap atoms for library units of the same dimension."""
    import re
    plain, pref = _atoms(L)
    byp = _STATE.setdefault('bypowers', {})
    if not byp:
        for n in plain:
            byp.setdefault(L.resolve(n).powers, []).append(n)

    def sub(m):
        n = m.group(0)
        if n in ('e', 'E') or n[0].isdigit():
            return n
        try:
            r = L.resolve(n)
        except RefError:
            return n
        return rng.choice(byp.get(r.powers, [n]))
    # names only (numbers such as 1e3 are protected by the look-behind on digits and dots)
    return re.sub(r'(?<![\d.A-Za-z_])[A-Za-z_][A-Za-z0-9_]*', sub, expr)


# ----------------------------------------------------------------------------------------------
# roots (inverse-integer exponents) of radicands whose NAME is not a perfect power
# ----------------------------------------------------------------------------------------------
_ROOT_EXP = {2: ['0.5', '.5', '(1/2)', '(0.5)', '0.5', '0.5'], 3: ['(1/3)', '(1./3)', '(1/3.)'],
             4: ['0.25', '(1/4)'], 5: ['0.2', '(1/5)'], 6: ['(1/6)']}
_ROOT_EXP_NEG = {2: ['-0.5', '(-1/2)', '-.5', '(-0.5)'], 3: ['(-1/3)', '-(1/3)'], 4: ['-0.25', '(-1/4)'],
                 5: ['-0.2'], 6: ['(-1/6)']}


def _paren(e):
    return '(' + e + ')' if any(ch in e for ch in '*/') else e


def _atom(rng, L, feats, p_pref=0.3):
    plain, pref = _atoms(L)
    if rng.random() < p_pref:
        feats.add('prefixed')
        return rng.choice(pref)
    return rng.choice(plain)


def _completion(rng, L, x, r):
    """An atom c and an exponent e with dim(x * c**e) a perfect r-th power (None if there is none)."""
    plain, pref = _atoms(L)
    px = L.evaluate(x).powers
    cands = list(plain) + rng.sample(pref, 40)
    rng.shuffle(cands)
    exps = [1, -1, 2, -2][:2 if r == 2 else 4]
    rng.shuffle(exps)
    for c in cands:
        pc = L.resolve(c).powers
        if not any(pc):
            continue
        for e in exps:
            if all((a + e * b) % r == 0 for a, b in zip(px, pc)):
                return c, e
    return None


def gen_root_expr(rng, L, feats):
    """A root whose radicand has a perfect-power DIMENSION but is written as a product / quotient of different
    units (or carries a numeric constant / a leading `1/`), optionally embedded in a larger expression."""
    feats.add('root-of-product')
    r = rng.choice([2, 2, 2, 2, 3, 3, 4, 5, 6])
    form = rng.random()
    if form < 0.22:
        # r different spellings of the same sub-expression: (ft*inch)**0.5, ((ft/s)*(inch/min))**0.5
        feats.add('root:mixed-factors')
        base = gen_expr(rng, L, rng.choice([0, 0, 1, 1, 2]), feats)
        fs = [base] + [_same_dim_variant(rng, L, base) for _ in range(r - 1)]
        rng.shuffle(fs)
        rad = '*'.join(_paren(f) for f in fs)
    elif form < 0.38:
        # numerators and denominators collected: (ft*inch/(s*min))**0.5, (1/(s*min))**0.5
        feats.add('root:mixed-fraction')
        num = [_atom(rng, L, feats) for _ in range(rng.randrange(0, 3))]
        den = [_atom(rng, L, feats) for _ in range(rng.randrange(1, 3))]
        nums = [_same_dim_variant(rng, L, n) for n in num for _ in range(r)]
        dens = [_same_dim_variant(rng, L, d) for d in den for _ in range(r)]
        rng.shuffle(nums)
        rng.shuffle(dens)
        rad = ('*'.join(nums) if nums else '1') + '/' + _paren('*'.join(dens))
        if len(dens) > 1 and rng.random() < 0.5:
            rad = ('*'.join(nums) if nums else '1') + ''.join('/' + d for d in dens)
    elif form < 0.72:
        # derived units whose dimension completes to a perfect power: (J/kg)**0.5, (Pa/(kg/m**3))**0.5, (ha)**0.5
        feats.add('root:derived')
        n = rng.choice([1, 1, 2, 2, 3])
        x = _atom(rng, L, feats)
        for _ in range(n - 1):
            x = x + rng.choice('*/') + _atom(rng, L, feats)
        if rng.random() < 0.25:
            x = _paren(x) + '**' + str(rng.choice([-1, 2, 3, -2]))
        got = _completion(rng, L, x, r)
        if got is None:
            rad = x + '*' + _paren(x) + '**' + str(r - 1)
        else:
            c, e = got
            tail = c if abs(e) == 1 else c + '**' + str(abs(e))
            if e > 0:
                rad = rng.choice([x + '*' + tail, tail + '*' + _paren(x)])
            else:
                rad = rng.choice([x + '/' + tail, _paren(x) + '/' + _paren(tail),
                                  '1/' + _paren(tail + '/' + _paren(x))])
    elif form < 0.86:
        # numeric constants and reciprocals: (4*m**2)**0.5, (1/s**2)**0.5, (1e3/(N*s)**2)**0.5
        feats.add('root:number')
        b = _paren(gen_expr(rng, L, rng.choice([0, 0, 1]), feats))
        k = rng.choice(['1', '1', '4', '2', '1e3', '0.25', '1.e-2', '1000', '27', '3.25', '1e-6'])
        rad = rng.choice([k + '*' + b + '**%d' % r, k + '/' + b + '**%d' % r, b + '**%d' % r + '/' + k,
                          k + '/' + b + '**%d' % (2 * r), b + '**-%d' % r + '*' + k])
    else:
        # a root inside a root / a product of roots: ((ft*inch)**0.5*m)**0.5, (ft*inch)**0.5*(yd*m)**0.5
        feats.add('root:nested')
        a = _atom(rng, L, feats)
        inner = '(' + a + '*' + _same_dim_variant(rng, L, a) + ')**' + rng.choice(_ROOT_EXP[2])
        c = _same_dim_variant(rng, L, a)
        k = rng.randrange(3)
        if k == 0:
            rad, r = rng.choice([inner + '*' + c, c + '*' + inner]), 2
        elif k == 1:
            rad, r = inner + '*' + c + '**3', 4
        else:
            rad, r = inner + '*' + _paren(gen_expr(rng, L, 1, feats)) + '**2/' + c, 2
    if rng.random() < 0.3:
        feats.add('root:negative')
        e = '(' + rad + ')**' + rng.choice(_ROOT_EXP_NEG[r])
    else:
        e = '(' + rad + ')**' + rng.choice(_ROOT_EXP[r])
    q = rng.random()
    if q < 0.35:
        # embedded in a larger expression
        feats.add('root:embedded')
        o = _paren(gen_expr(rng, L, rng.choice([0, 0, 1]), feats))
        e = rng.choice([e + '*' + o, o + '*' + e, e + '/' + o, o + '/' + e, '(' + e + ')**2', '(' + e + ')**-1',
                        '1/' + e, '1e3*' + e, e + '*' + e])
    return e


def _si_string(L, r):
    """The unit of the reference value r written in base units (independent of the implementation's names)."""
    num = [n if p == 1 else '%s**%d' % (n, p) for n, p in zip(L.base_names, r.powers) if p > 0]
    den = [n if p == -1 else '%s**%d' % (n, -p) for n, p in zip(L.base_names, r.powers) if p < 0]
    return ('*'.join(num) if num else '1') + ''.join('/' + d for d in den)


def _judge_declared(e, r, e2, r2, cls, case, acc):
    """The same unit seen through a model: variables DECLARED in `e` (IndepVarComp output, ExecComp output)
    are stored under simplify_unit(e); reading them back in other units and passing them through a connection
    must give the reference conversion."""
    import numpy as np
    import openmdao.api as om
    L = _lib()
    t = _si_string(L, r)
    rt = L.evaluate(t)
    v = case.get('value', 3.7)
    # tolerance: conversions now start from the simplified strings, whose factors were just shown to agree with
    # the reference within (ops_e + ops_simplified + 6) roundings
    def tol_for(x, rb):
        ref, tol, scale = convert(x, r, rb)
        return ref, tol + (2 * r.ops + 2 * rb.ops + 24) * EPS * scale
    try:
        refs = {'native': (v, 4 * EPS * abs(v)), 't': tol_for(v, rt), 'e': tol_for(v, r), 'y': tol_for(2.0 * v, rt),
                'e2': tol_for(v, r2) if e2 is not None else None}
        if not all(math.isfinite(x[0]) and abs(x[0]) < 1e300 for x in refs.values() if x is not None):
            raise OverflowError
    except (OverflowError, ZeroDivisionError):
        acc.count('guard:declared-reference-out-of-range')
        return False
    acc.count('obs:declared')

    def val(name, **kw):
        return float(np.ravel(p.get_val(name, **kw))[0])
    p = om.Problem()
    try:
        ivc = p.model.add_subsystem('ivc', om.IndepVarComp())
        ivc.add_output('a', val=v, units=e)
        # x: an input in base units fed by the declared variable; y = 2 * z is a NUMBER declared in `e`
        p.model.add_subsystem('c', om.ExecComp(['y=2.0*z', 'w=x'], x={'units': t, 'val': 1.0}, w={'units': t},
                                               z={'val': v}, y={'units': e, 'val': 1.0}))
        p.model.connect('ivc.a', 'c.x')
        p.setup()
        p.run_model()
        meta = p.model.get_io_metadata(metadata_keys=['units'], return_rel_names=False)
        obs = [('get_val(ivc.a) in the declared units', val('ivc.a'), refs['native']),
               ('get_val(ivc.a, units=%r)' % t, val('ivc.a', units=t), refs['t']),
               ('get_val(ivc.a, units=%r)' % e, val('ivc.a', units=e), refs['e']),
               ('input c.x [%s] connected to ivc.a' % t, val('c.x'), refs['t']),
               ('get_val(c.y, units=%r) of y=%r [%s]' % (t, 2.0 * v, e), val('c.y', units=t), refs['y'])]
        if e2 is not None:
            obs.append(('get_val(ivc.a, units=%r)' % e2, val('ivc.a', units=e2), refs['e2']))
        stored = [meta['ivc.a']['units'], meta['c.y']['units']]
    except Exception as ex:
        acc.viol('declared:%s:raises-%s' % (cls, type(ex).__name__), 'IndepVarComp/ExecComp output declared with '
                 'units=%r, read back / connected in %r: %s' % (e, t, str(ex)[:200]), case)
        return True
    finally:
        try:
            p.cleanup()
        except Exception:
            pass
    for what, got, (ref, tol) in obs:
        if not _close(got, ref, tol):
            acc.viol('declared:%s:value' % cls, 'variable declared with units=%r (stored as %r): %s = %r, '
                     'reference %r (tol %.3g)' % (e, stored[0], what, got, ref, tol), case)
            return True
    return False


def judge_composite(case, acc):
    import openmdao.utils.units as U
    L = _lib()
    e = case['expr']
    feats = sorted(case.get('feats', []))
    # one input-class word for the key: the most specific construct the expression contains
    cls = next((f for f in ('da-prefix', 'root-of-product', 'root', 'number', 'unity', 'power', 'quotient',
                            'prefixed', 'paren') if f in feats), 'plain')
    try:
        r = L.evaluate(e)
    except RefError as ex:
        acc.skip('reference-cannot-evaluate')
        return
    except (ZeroDivisionError, OverflowError):
        acc.skip('reference-overflow')
        return
    if r.q <= 0 or r.mag > 250:
        # the factor - or an intermediate result of the same expression - leaves the comfortable double range
        acc.skip('factor-out-of-range')
        return
    _fresh()
    try:
        pu = U._find_unit(e)
    except Exception as ex:
        acc.count('rejected:raises-%s' % type(ex).__name__)
        acc.skip('rejected-by-openmdao')
        return
    if pu is None:
        acc.skip('rejected-by-openmdao')
        return
    acc.count('obs:composite')
    for ft in feats:
        acc.count('obs:composite:' + ft)
    if 'root-of-product' in feats:
        if not r.exact():
            acc.count('obs:root:irrational-factor')
        if any(x < 0 for x in r.powers):
            acc.count('obs:root:result-has-denominator')
    bad = False
    fp = fingerprint(['composite', e])
    if [float(x) for x in pu._powers] != [float(x) for x in r.powers]:
        acc.viol('composite:%s:powers' % cls, '%r powers %s, reference %s' % (e, pu._powers, list(r.powers)), case, fp=fp)
        bad = True
    if not _close(pu._factor, r.factor(), (r.ops + 3) * EPS * abs(r.factor())):
        acc.viol('composite:%s:factor' % cls, '%r factor %r, reference %r (ops %d)' % (e, pu._factor, r.factor(), r.ops),
                 case, fp=fp, new_case=not bad)
        bad = True
    if pu._offset != 0.0:
        acc.viol('composite:%s:offset' % cls, '%r offset %r' % (e, pu._offset), case, fp=fp, new_case=not bad)
        bad = True
    # conversion into a second expression of the same dimension
    e2 = case.get('expr2')
    if e2 and not bad:
        try:
            r2 = L.evaluate(e2)
            ok2 = r2.powers == r.powers and r2.q > 0 and r2.mag <= 250 and abs(r.log10() - r2.log10()) <= 250
        except (RefError, ZeroDivisionError, OverflowError):
            ok2 = False
        if ok2:
            try:
                comp = U.is_compatible(e, e2)
                got = U.convert_units(3.7, e, e2)
            except Exception as ex:
                acc.viol('composite:%s:conversion-raises-%s' % (cls, type(ex).__name__),
                         'convert_units(3.7,%r,%r): %s' % (e, e2, str(ex)[:120]), case, fp=fp, new_case=not bad)
                bad = True
            else:
                acc.count('obs:composite:convert')
                ref, tol, _ = convert(3.7, r, r2)
                if not comp:
                    acc.viol('composite:%s:is_compatible' % cls, 'is_compatible(%r,%r) is False for equal dimensions'
                             % (e, e2), case, fp=fp, new_case=not bad)
                    bad = True
                if not _close(got, ref, tol):
                    acc.viol('composite:%s:converted-value' % cls, 'convert_units(3.7,%r,%r)=%r, reference %r' %
                             (e, e2, got, ref), case, fp=fp, new_case=not bad)
                    bad = True
    scls = 'plain'
    if 'root-of-product' in feats:
        scls = 'root-of-product'
    elif 'root' in feats:
        scls = 'root'
    elif 'number' in feats:
        scls = 'numeric-constant'
    bad = _judge_simplify(e, r, scls, case, acc, bad) or bad
    if case.get('declare') and not bad:
        if not any(r.powers):
            acc.count('guard:declared-dimensionless-not-modelled')
        else:
            try:
                r2 = L.evaluate(e2) if e2 else None
                if r2 is not None and not (r2.powers == r.powers and r2.q > 0 and r2.mag <= 250 and
                                           abs(r.log10() - r2.log10()) <= 250):
                    r2 = None
            except (RefError, ZeroDivisionError, OverflowError):
                r2 = None
            bad = _judge_declared(e, r, e2 if r2 is not None else None, r2, scls, case, acc)
    if not bad:
        acc.ok(fp, sample=case if acc.judged % 997 == 0 else None)


# ----------------------------------------------------------------------------------------------
# order independence
# ----------------------------------------------------------------------------------------------
def _look(U, name):
    try:
        u = U._find_unit(name)
    except Exception as e:
        return ('raises', type(e).__name__)
    if u is None:
        return ('invalid',)
    return ('unit', u._factor, tuple(float(x) for x in u._powers), u._offset)


_UNDERSCORE_UNITS = ['arc_minute', 'arc_second', 'drag_count']


def _order_class(L, target):
    plain, _ = _atoms(L)
    if any(ch in target for ch in '*/'):
        if any(u in target for u in _UNDERSCORE_UNITS):
            return 'underscore-unit-with-prefixed'
        return 'exponent-literal-with-prefixed'
    if target.startswith('da') and L.is_library_unit(target[2:]) and not L.is_library_unit(target):
        return 'da-prefix'
    for n1 in (1, 2):
        for n2 in (1, 2):
            p1, p2, rest = target[:n1], target[n1:n1 + n2], target[n1 + n2:]
            if p1 in PREFIXES and p2 in PREFIXES and L.is_library_unit(rest) and \
                    not L.is_library_unit(target[n1:]) and not L.is_library_unit(target):
                return 'compound-prefix'
    return 'prefixed'


def judge_order(case, acc):
    import openmdao.utils.units as U
    L = _lib()
    target, prelude = case['target'], case['prelude']
    cls = _order_class(L, target)
    acc.count('obs:order')
    acc.count('obs:order:' + cls)
    _fresh()
    alone = _look(U, target)
    _fresh()
    for p in prelude:
        _look(U, p)
    after = _look(U, target)
    _fresh()
    fp = fingerprint(['order', target, len(prelude), cls])
    bad = False
    if alone[0] != after[0]:
        acc.viol('order-dependence:%s:validity' % cls, '_find_unit(%r) is %s in a fresh library but %s after looking up %s'
                 % (target, alone[0], after[0], _culprit(U, target, prelude, alone)), case, fp=fp)
        bad = True
    elif alone != after:
        acc.viol('order-dependence:%s:factor' % cls, '_find_unit(%r) has factor %r in a fresh library but %r after '
                 'looking up %s' % (target, alone[1], after[1], _culprit(U, target, prelude, alone)), case, fp=fp)
        bad = True
    # fresh result vs the reference
    try:
        r = L.resolve(target)
    except RefError:
        r = None
    if r is not None and alone[0] == 'unit':
        if not _close(alone[1], r.factor(), (r.ops + 3) * EPS * abs(r.factor())) or \
                list(alone[2]) != [float(x) for x in r.powers]:
            acc.viol('prefixed:%s:fresh-factor-vs-reference' % cls, '%r fresh factor %r, reference %r' %
                     (target, alone[1], r.factor()), case, fp=fp, new_case=not bad)
            bad = True
    elif r is not None and alone[0] != 'unit':
        acc.count('note:reference-valid-but-rejected')
    if not bad:
        acc.ok(fp)


def _culprit(U, target, prelude, alone):
    """Smallest single prelude entry that reproduces the change (for the message only)."""
    for p in prelude:
        _fresh()
        _look(U, p)
        if _look(U, target) != alone:
            return repr([p])
    return repr(prelude)


def gen_order_case(rng, L):
    plain, pref = _atoms(L)
    r = rng.random()
    if r < 0.12:
        # an expression whose first evaluation fails only because it contains a not-yet-expanded prefixed unit;
        # the fallback scanner then has to cope with the rest of the expression
        pu = rng.choice([x for x in pref if '_' not in x])
        other = rng.choice(_UNDERSCORE_UNITS + ['1e3', '1.e-2'])
        target = rng.choice([other + '*' + pu, pu + '/' + other]) if other[0].isalpha() else other + '*' + pu
        prelude = [rng.choice(pref) for _ in range(rng.randrange(0, 3))] + [pu]
        rng.shuffle(prelude)
        return {'kind': 'order', 'target': target, 'prelude': prelude}
    if r < 0.4:
        base = rng.choice(plain)
        target = 'da' + base
        if L.is_library_unit(target):
            target = rng.choice(pref)
    elif r < 0.6:
        target = rng.choice(list(PREFIXES)) + rng.choice(pref)
    else:
        target = rng.choice(pref)
    prelude = []
    for _ in range(rng.randrange(1, 8)):
        q = rng.random()
        if q < 0.35:
            # sub-strings of the target that are themselves prefixed units
            k = rng.randrange(1, max(2, len(target)))
            prelude.append(target[k:])
        elif q < 0.7:
            prelude.append(rng.choice(pref))
        else:
            f = set()
            prelude.append(gen_expr(rng, L, 2, f))
    return {'kind': 'order', 'target': target, 'prelude': prelude}


# ----------------------------------------------------------------------------------------------
# framework entry points
# ----------------------------------------------------------------------------------------------
def shards(tier, seed):
    out = [{'kind': 'units'}]
    npair = 6
    for k in range(npair):
        out.append({'kind': 'pairs', 'part': k, 'of': npair})
    for k in range(2):
        out.append({'kind': 'triples', 'part': k, 'of': 2})
    ncomp, per = (8, 330) if tier == 'quick' else (24, 1200)
    for k in range(ncomp):
        out.append({'kind': 'composite', 'seed': seed * 100003 + k, 'n': per})
    nroot, perr = (8, 260) if tier == 'quick' else (24, 1000)
    for k in range(nroot):
        out.append({'kind': 'roots', 'seed': seed * 100003 + 9000 + k, 'n': perr})
    # the same expressions declared as units of model variables (own shards: only these import openmdao.api)
    ndecl, perd = (4, 150) if tier == 'quick' else (8, 600)
    for k in range(ndecl):
        out.append({'kind': 'declared', 'seed': seed * 100003 + 13000 + k, 'n': perd})
    nord, pero = (4, 250) if tier == 'quick' else (12, 1000)
    for k in range(nord):
        out.append({'kind': 'order', 'seed': seed * 100003 + 5000 + k, 'n': pero})
    return out


def run_shard(shard, acc):
    L = _lib()
    _fresh()
    kind = shard['kind']
    if kind == 'units':
        for n in L.library_names():
            judge_unit({'kind': 'unit', 'unit': n}, acc)
    elif kind == 'pairs':
        names = L.library_names() + EXTRA_UNITS
        for i, a in enumerate(names):
            if i % shard['of'] != shard['part']:
                continue
            for b in names:
                judge_pair({'kind': 'pair', 'a': a, 'b': b}, acc)
    elif kind == 'triples':
        groups = {}
        for n in L.library_names():
            groups.setdefault(L.resolve(n).powers, []).append(n)
        i = 0
        for g in groups.values():
            for a, b, c in itertools.product(g, repeat=3):
                i += 1
                if i % shard['of'] == shard['part']:
                    judge_triple({'kind': 'triple', 'a': a, 'b': b, 'c': c}, acc)
    elif kind == 'composite':
        rng = random.Random(shard['seed'])
        for _ in range(shard['n']):
            feats = set()
            e = gen_expr(rng, L, rng.randrange(1, 5), feats)
            case = {'kind': 'composite', 'expr': e, 'feats': sorted(feats),
                    'expr2': _same_dim_variant(rng, L, e)}
            judge_composite(case, acc)
    elif kind in ('roots', 'declared'):
        rng = random.Random(shard['seed'])
        for i in range(shard['n']):
            feats = set()
            if kind == 'declared' and i % 3 == 0:
                e = gen_expr(rng, L, rng.randrange(1, 4), feats)
            else:
                e = gen_root_expr(rng, L, feats)
            case = {'kind': 'composite', 'expr': e, 'feats': sorted(feats),
                    'expr2': _same_dim_variant(rng, L, e)}
            if kind == 'declared':
                case['declare'] = True
                case['value'] = rng.choice([3.7, -1.0, 1e6, 2.5e-3])
            judge_composite(case, acc)
    elif kind == 'order':
        rng = random.Random(shard['seed'])
        for _ in range(shard['n']):
            judge_order(gen_order_case(rng, L), acc)
    _fresh()


def run_case(case, acc):
    _fresh()
    k = case['kind']
    if k == 'unit':
        judge_unit(case, acc)
    elif k == 'pair':
        judge_pair(case, acc)
    elif k == 'triple':
        judge_triple(case, acc)
    elif k == 'composite':
        judge_composite(case, acc)
    else:
        judge_order(case, acc)


def coverage_extra(tier, agg):
    return {'exhaustive': False,
            'exhaustive_subspace': 'every library unit (%d), every ordered pair of library+prefixed units, every '
                                   'compatible triple of library units (%d)' %
                                   (agg['counters'].get('obs:unit', 0), agg['counters'].get('obs:triple', 0))}
