"""C22 - Constraint violation is measured correctly elementwise and in driver units.

Monitor: reference-formula comparison at Driver.get_constraint_values(viol=True), Driver._compute_con_viol
and Problem.find_feasible.  The model is the tiny QP harness (g = A z + b as array responses), constraint
values are evaluated by the harness with NumPy from get_val and its own unit table; the expected
violation per element is v-upper (>0) above the upper bound, v-lower (<0) below the lower bound,
v-equals for equalities and 0 when satisfied; with driver_scaling=True that distance times the
constraint's scaler (no adder).
"""
import numpy as np

from omv.core import fingerprint
from omv.ref import affine as af
from omv.ref import qpspec

PROPERTY = 'C22'
LEVEL = 'exploration'
TECHNIQUE = 'runtime monitoring: reported violation vector vs closed-form elementwise distance'
RULE = ('random QP-harness problems (1-4 design variables, 1-4 constraint elements in 1-2 constraints with '
        'indices/alias) with bound forms {scalar, array with holes, one/two sided, equality scalar/array}, '
        'linear/nonlinear flags, units, scaler/adder/ref/ref0 (scalar and array, positive), evaluated at points '
        'inside / near / far outside the bounds, for driver_scaling in {False, True}; observables '
        'get_constraint_values(viol=True), _compute_con_viol, find_feasible (plus a failpoint stratum: the k-th model '
        'evaluation inside find_feasible raises, k in 1..3); distinct = distinct (structure, '
        'driver_scaling, observable); non-trivial = at least one element violated at the evaluation point')
LEVEL_TEXT = 'sampled exploration; every reported violation element compared with the closed form'
ASSUMPTIONS = [
    'bounds are declared in the declared units of the constraint, unscaled',
    'scalers are positive (the sign convention of a violation under an orientation-reversing scaler is left '
    'open by the property and is not exercised)',
    'find_feasible success is judged with its own definition: 1/2*sum(viol^2) <= loss_tol in the space selected by '
    'driver_scaling (res.cost of least_squares over the residuals of _compute_con_viol), with the violation '
    're-evaluated by the harness in that same space at the state the model is left in (docs, "Finding Feasible '
    'Solutions": "If it completes successfully, the model will be in a feasible state")',
    'comparison tolerance 1e-9*(1+|value|+|bound|) in declared units (round-off of one affine map)',
]
MIN_JUDGED = {'quick': 400, 'thorough': 5000}
REQUIRED_COUNTERS = ['obs:get_constraint_values-viol', 'obs:violated-elements', 'obs:satisfied-elements',
                     'obs:equality-elements', 'obs:driver_scaling-true', 'obs:driver_scaling-false',
                     'obs:scalar-bounds', 'obs:array-bounds', 'obs:_compute_con_viol',
                     'obs:find_feasible-success', 'obs:find_feasible-fault-injected']
SHARD_TIMEOUT = {'quick': 600, 'thorough': 3000}


def gen(rng):
    return qpspec.random_spec(rng, n_max=4, m_max=4, allow_neg=False, scaling=True, units=True,
                              dv_indices=False, equality=True, split_cons=True, dv_bounds='some',
                              margin=1.0, units_p=0.4, offsets=True, mag_range=(0.05, 20.0))


def _form(cd):
    if cd.get('equals') is not None:
        return 'equals-array' if isinstance(cd['equals'], list) else 'equals-scalar'
    arr = isinstance(cd.get('lower'), list) or isinstance(cd.get('upper'), list)
    sides = ('L' if cd.get('lower') is not None else '') + ('U' if cd.get('upper') is not None else '')
    return ('array-' if arr else 'scalar-') + {'L': 'lower', 'U': 'upper', 'LU': 'two-sided'}[sides]


def expected(ref, z, driver_scaling):
    out = {}
    g = ref.g(z)
    for c in ref.cons:
        vd = af.to_units(g[c['rows']], c['munits'], c['units'])
        cd = c['d']
        if cd.get('equals') is not None:
            v = af.violation(vd, None, None, equals=cd['equals'])
        else:
            lo, hi = ref.bounds(c)
            v = af.violation(vd, lo, hi)
        unscaled = v.copy()
        s, a = af.scaler_adder(c['sc'], c['size'])
        out[c['key']] = {'want': v * s if driver_scaling else v, 'unscaled': unscaled, 'scaler': s, 'adder': a,
                         'vd': vd}
    return out


def _how(got, e, driver_scaling):
    """Name how a mismatching violation vector relates to the closed form."""
    tol = 1e-9 * (1 + np.abs(e['vd']))
    if got.shape != e['want'].shape:
        return 'wrong-shape'
    if driver_scaling:
        if np.all(np.abs(got - e['unscaled']) <= tol):
            return 'returned-unscaled'
        nz = e['unscaled'] != 0
        withadd = np.where(nz, (e['unscaled'] + e['adder']) * e['scaler'], got)
        if np.all(np.abs(got - withadd) <= tol * (1 + np.abs(e['scaler']))):
            return 'adder-applied-to-distance'
        withadd_all = (e['unscaled'] + e['adder']) * e['scaler']
        if np.all(np.abs(got - withadd_all) <= tol * (1 + np.abs(e['scaler']))):
            return 'adder-applied-to-distance'
    if np.all(np.abs(np.abs(got) - np.abs(e['want'])) <= tol * (1 + np.abs(e['scaler']))):
        return 'sign'
    return 'value'


def judge(case, acc):
    import openmdao.api as om
    from omv.gen import qpmodel
    spec = case['spec']
    z = np.asarray(case['z'], float)
    mode = case['mode']          # 'values' | 'find_feasible'
    ref = qpspec.RefModel(spec)
    st = qpspec.structure(spec)
    p = None
    try:
        drv = om.ScipyOptimizeDriver(optimizer='SLSQP', disp=False) if case.get('driver', 'scipy') == 'scipy' \
            else __import__("openmdao.core.driver", fromlist=["Driver"]).Driver()
        p, comp = qpmodel.build(spec, driver=drv)
        p.final_setup()
        qpmodel.set_z(p, spec, z)
        p.run_model()
        zz = qpmodel.get_z(p, spec)
        if mode == 'find_feasible':
            _judge_ff(case, acc, p, drv, ref, st)
            return
        for ds in (False, True):
            fp = fingerprint({'st': st, 'ds': ds, 'obs': 'gcv'})
            exp = expected(ref, zz, ds)
            acc.count('obs:driver_scaling-%s' % ('true' if ds else 'false'))
            bad = []
            nviol = 0
            # ---- observable 1: get_constraint_values(viol=True)
            try:
                got = drv.get_constraint_values(viol=True, driver_scaling=ds)
                acc.count('obs:get_constraint_values-viol')
            except Exception as e:   # noqa
                forms = sorted(set(_form(c['d']) for c in ref.cons))
                arr = any(f.startswith('array') for f in forms)
                bad.append(('get_constraint_values-viol:raises:%s:%s' % (
                    type(e).__name__, 'array-bounds' if arr else '+'.join(forms)),
                    '%s: %s' % (type(e).__name__, str(e)[:200])))
                got = None
            if got is not None:
                if set(got) != set(exp):
                    bad.append(('get_constraint_values-viol:wrong-constraint-set',
                                'got %s want %s' % (sorted(got), sorted(exp))))
                for c in ref.cons:
                    k = c['key']
                    if k not in got:
                        continue
                    e = exp[k]
                    gk = np.asarray(got[k], float).ravel()
                    form = _form(c['d'])
                    acc.count('obs:%s-bounds' % ('array' if 'array' in form else 'scalar'))
                    nv = int(np.count_nonzero(e['unscaled']))
                    nviol += nv
                    acc.count('obs:violated-elements', nv)
                    acc.count('obs:satisfied-elements', c['size'] - nv)
                    if form.startswith('equals'):
                        acc.count('obs:equality-elements', c['size'])
                    tol = 1e-9 * (1 + np.abs(e['vd']) + np.abs(e['want'])) * (1 + np.abs(e['scaler']))
                    if gk.shape != e['want'].shape or np.any(np.abs(gk - e['want']) > tol):
                        sc_tag = '+'.join(af.scaling_tags(c['sc'], c['size']))
                        how = _how(gk, e, ds)
                        bad.append(('get_constraint_values-viol:driver_scaling-%s:%s:%s' % (
                            'true' if ds else 'false', how,
                            'scaled' if sc_tag != 'noscale' else 'noscale'),
                            '%s: got %s want %s (value %s, form %s, scaling %s)' % (
                                k, gk.tolist(), e['want'].tolist(), e['vd'].tolist(), form, c['sc'])))
            # ---- observable 2: _compute_con_viol (vector, linear constraints first)
            try:
                xs = np.concatenate([v['scaled'] for v in ref.dv_vals(zz).values()])
                drv._exc_info = None
                vec = drv._compute_con_viol(xs.copy(), [d['key'] for d in ref.dvs], driver_scaling=ds)
                exc = drv._exc_info
                drv._exc_info = None
                acc.count('obs:_compute_con_viol')
                z2 = qpmodel.get_z(p, spec)
                if np.max(np.abs(z2 - zz) / (1 + np.abs(zz))) > 1e-9:
                    bad.append(('_compute_con_viol:design-vars-not-restored-from-scaled-x',
                                'model z=%s after setting the scaled image of z=%s' % (z2.tolist(), zz.tolist())))
                if exc is not None:
                    forms = sorted(set(_form(c['d']) for c in ref.cons))
                    arr = any(f.startswith('array') for f in forms)
                    bad.append(('_compute_con_viol:swallowed-exception:%s:%s' % (
                        exc[0].__name__, 'array-bounds' if arr else '+'.join(forms)),
                        'exception recorded in _exc_info and zeros returned: %s' % str(exc[1])[:160]))
                else:
                    order = [c for c in ref.cons if c['d'].get('linear')] + \
                        [c for c in ref.cons if not c['d'].get('linear')]
                    want = np.concatenate([exp[c['key']]['want'] for c in order])
                    tolv = 1e-9 * (1 + np.abs(want)) * (1 + max(np.max(np.abs(exp[c['key']]['scaler']))
                                                               for c in order)) + \
                        1e-9 * np.concatenate([np.abs(exp[c['key']]['vd']) * np.abs(exp[c['key']]['scaler'])
                                               for c in order])
                    vec = np.asarray(vec, float).ravel()
                    if vec.shape != want.shape or np.any(np.abs(vec - want) > tolv):
                        # only report separately if observable 1 was right (else same mechanism)
                        if not any(b[0].startswith('get_constraint_values-viol') for b in bad):
                            bad.append(('_compute_con_viol:driver_scaling-%s:vector-mismatch' % (
                                'true' if ds else 'false'), 'got %s want %s' % (vec.tolist(), want.tolist())))
            except Exception as e:   # noqa
                bad.append(('_compute_con_viol:raises:%s' % type(e).__name__, str(e)[:200]))
            if bad:
                first = True
                seen = set()
                for key, what in bad:
                    if key in seen:
                        continue
                    seen.add(key)
                    acc.viol(key, what, case, fp=fp, new_case=first)
                    first = False
            else:
                acc.ok(fp, nontrivial=nviol > 0, sample=case if acc.judged % 211 == 0 else None)
    finally:
        if p is not None:
            try:
                p.cleanup()
            except Exception:
                pass


class _Injected(RuntimeError):
    pass


def _judge_ff(case, acc, p, drv, ref, st):
    from omv.gen import qpmodel
    spec = case['spec']
    ds = bool(case['ds'])
    fp = fingerprint({'st': st, 'ds': ds, 'obs': 'ff', 'fault': bool(case.get('fault'))})
    loss_tol = 1e-8
    import io
    import contextlib
    fault = case.get('fault')
    if fault:
        # failpoint: the fault-th model evaluation requested by find_feasible raises.  The residual callback
        # records the exception and returns zeros; find_feasible must then not claim a feasible point.
        orig = drv._run_solve_nonlinear
        calls = [0]

        def failing(*a, **kw):
            calls[0] += 1
            if calls[0] == fault:
                acc.count('obs:find_feasible-fault-injected')
                raise _Injected('omv injected model failure at evaluation %d' % fault)
            return orig(*a, **kw)
        drv._run_solve_nonlinear = failing
    # record every residual evaluation (driver-scaled x, residual vector) requested by least_squares, so that a
    # success claimed for a point other than the one the model is left at can be named as such
    evals = []
    orig_ccv = drv._compute_con_viol

    def recording_ccv(x, *a, **kw):
        xx = np.array(x, float)
        r = orig_ccv(x, *a, **kw)
        evals.append((xx, 0.5 * float(np.dot(r, r))))
        return r
    drv._compute_con_viol = recording_ccv
    try:
        with contextlib.redirect_stdout(io.StringIO()):
            p.find_feasible(driver_scaling=ds, iprint=0, loss_tol=loss_tol)
    except _Injected:
        acc.count('obs:find_feasible-fault-propagated')
        acc.ok(fp, sample=None)
        return
    except Exception as e:   # noqa
        forms = sorted(set(_form(c['d']) for c in ref.cons))
        arr = any(f.startswith('array') for f in forms)
        acc.viol('find_feasible:raises:%s:%s' % (type(e).__name__, 'array-bounds' if arr else '+'.join(forms)),
                 '%s: %s' % (type(e).__name__, str(e)[:200]), case, fp=fp)
        return
    acc.count('obs:find_feasible-run')
    if not drv.result.success:
        acc.count('obs:find_feasible-reported-failure')
        acc.skip('find_feasible-reported-failure')
        return
    acc.count('obs:find_feasible-success')
    zz = qpmodel.get_z(p, spec)
    exp = expected(ref, zz, ds)
    v = np.concatenate([exp[c['key']]['want'] for c in ref.cons])
    cost = 0.5 * float(v @ v)
    if cost > loss_tol * (1 + 1e-6) + 1e-15:
        worst = max(ref.cons, key=lambda c: np.max(np.abs(exp[c['key']]['want'])))
        sc_tag = '+'.join(af.scaling_tags(worst['sc'], worst['size']))
        exc = getattr(drv, '_exc_info', None)
        if exc is not None:
            forms = sorted(set(_form(c['d']) for c in ref.cons))
            arr = any(f.startswith('array') for f in forms)
            acc.viol('find_feasible:success-although-violation-callback-raised:%s' % (
                'injected-model-failure' if exc[0] is _Injected else
                '%s:%s' % (exc[0].__name__, 'array-bounds' if arr else '+'.join(forms))),
                'success reported but the residual callback raised (%s) and returned zeros; harness-evaluated '
                '1/2*sum(viol^2)=%.3g at z=%s' % (str(exc[1])[:100], cost, zz.tolist()), case, fp=fp)
            return
        if evals and min(c for _, c in evals) <= loss_tol < evals[-1][1]:
            # least_squares found (and reports) a point within loss_tol, but its last evaluation - the state the
            # model is left in - is another point (a rejected trust-region trial step)
            best = min(evals, key=lambda e: e[1])
            acc.viol('find_feasible:success-with-violation:model-left-at-rejected-trial-point',
                     'success reported for the evaluated point x=%s (1/2*sum(viol^2)=%.3g) but the model is left at '
                     'the last trial point x=%s: harness-evaluated 1/2*sum(viol^2)=%.3g > loss_tol=%.1g at z=%s '
                     '(viol %s, driver_scaling=%s)' % (best[0].tolist(), best[1], evals[-1][0].tolist(), cost,
                                                      loss_tol, zz.tolist(), v.tolist(), ds), case, fp=fp)
            return
        acc.viol('find_feasible:success-with-violation:driver_scaling-%s:%s' % (
            'true' if ds else 'false', 'scaled' if sc_tag != 'noscale' else 'noscale'),
            'success reported, harness-evaluated 1/2*sum(viol^2)=%.3g > loss_tol=%.1g at z=%s (viol %s)'
            % (cost, loss_tol, zz.tolist(), v.tolist()), case, fp=fp)
    else:
        acc.ok(fp, sample=None)


# ----------------------------------------------------------------------------------------------
def shards(tier, seed):
    nsh = 16 if tier == 'quick' else 32
    n = 30 if tier == 'quick' else 300
    return [{'seed': seed * 100003 + 104729 * k + 5, 'n': n} for k in range(nsh)]


def _inside(ref, z):
    """Move the design variables strictly inside their declared bounds (they are set through the driver)."""
    z = np.array(z, float)
    for d in ref.dvs:
        lo, hi = ref.bounds(d)
        vd = af.to_units(z[d['pos']], d['munits'], d['units'])
        lo_f = np.where(lo <= -af.INF_BOUND, -np.inf, lo)
        hi_f = np.where(hi >= af.INF_BOUND, np.inf, hi)
        both = np.isfinite(lo_f) & np.isfinite(hi_f)
        delta = np.where(both, np.minimum(1e-4, np.where(both, hi_f - lo_f, 1.0) / 4.0), 1e-4)
        vd = np.minimum(np.maximum(vd, lo_f + delta), hi_f - delta)
        z[d['pos']] = af.from_units(vd, d['munits'], d['units'])
    return z


def run_shard(shard, acc):
    rng = np.random.default_rng(shard['seed'])
    for i in range(shard['n']):
        spec = gen(rng)
        ref = qpspec.RefModel(spec)
        x0 = ref.x0
        n = x0.size
        for t in (0.0, 0.5, 3.0):
            z = _inside(ref, x0 + t * rng.normal(size=n))
            judge({'spec': spec, 'z': np.round(z, 12).tolist(), 'mode': 'values',
                   'driver': 'scipy' if i % 2 == 0 else 'base'}, acc)
        if i % 2 == 0:
            z = _inside(ref, x0 + 1.0 * rng.normal(size=n))
            for ds in (False, True):
                judge({'spec': spec, 'z': np.round(z, 12).tolist(), 'mode': 'find_feasible', 'ds': ds}, acc)
            judge({'spec': spec, 'z': np.round(z, 12).tolist(), 'mode': 'find_feasible', 'ds': bool(i % 4),
                   'fault': 1 + (i // 4) % 3}, acc)


def run_case(case, acc):
    judge(case, acc)
