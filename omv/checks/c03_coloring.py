"""C03 - Simultaneous-derivative coloring reconstructs every Jacobian entry.

Two layers.

(a) CONTRACT on openmdao.utils.coloring._compute_coloring (icontract `ensure`, named conditions, record-and-
    continue).  Every call - including the recursive fwd/rev fallback calls made by mode='auto' - is judged:
    a matrix A with the call's sparsity pattern (entries uniform in [1, 2]) is compressed into A@V (fwd colors)
    and W.T@A (rev colors) and rebuilt through the coloring's own color_nonzero_iter maps and substitution list
    (omv/ref/colorrec.py); rebuilt == A; every column (row) that owns nonzeros is in exactly one fwd (rev)
    group; every nonzero is claimed exactly once; total_solves() <= ncols / nrows / min; for one-directional
    colorings Coloring._expand_jac(compressed) == A as well.
    Driven by exhaustive enumeration of all boolean patterns of the tier's shapes x {fwd, rev, auto-direct,
    auto-substitution} and by random/structured patterns up to 40x40.

(b) FRAMEWORK: a harness component y = A g(x) (two inputs, two outputs, partials declared rows/cols = the
    pattern) under ivc; (i) driver.declare_coloring(direct=...) and compute_totals in fwd/rev/auto, with and
    without driver scaling (non-uniform scalers): colored == uncolored == closed form; (ii) the same component
    with approximated partials (cs/fd) + declare_coloring: colored partials == uncolored == closed form;
    (iii) ExecComp(do_coloring=True) vs do_coloring=False.  Hooks count that the colored code paths ran
    (_TotalJacInfo.simul_coloring_jac_setter, ApproximationScheme._colored_column_iter,
    Coloring._apply_subtractions).
"""
import itertools
import random

import numpy as np

from omv.core import fingerprint
from omv.ref import colorrec as R

PROPERTY = 'C03'
LEVEL = 'exploration'
TECHNIQUE = 'runtime monitoring: icontract post-condition on _compute_coloring + colored-vs-uncolored differential'
RULE = ('contract layer: ALL boolean patterns of the enumerated shapes x {fwd, rev, auto-direct, '
        'auto-substitution} (+ the recursive fallback calls), plus random and structured (arrow, block-diagonal + '
        'dense rows/cols, banded, Eisenstat-like) patterns up to 40x40; framework layer: random/structured '
        'patterns up to 8x8 x mode {fwd, rev, auto} x {direct, substitution} x scaling {none, array scalers with '
        'driver_scaling}, partial coloring with cs/fd, ExecComp coloring; distinct = distinct (pattern, mode, '
        'direct) resp. structural description; non-trivial = pattern has at least two nonzero columns and rows '
        'resp. the coloring was actually used')
LEVEL_TEXT = ('exhaustive over the enumerated shapes for the coloring/reconstruction contract; sampled for larger '
              'patterns and for the framework paths')
ASSUMPTIONS = ['matrix entries in [1, 2]: no cancellation, reconstruction is exact up to 1e-12 relative',
               'the framework rebuilds J by writing compressed results through get_row_col_map and then applying '
               'Coloring._subtractions in list order; the reference does the same with its own three lines',
               'declared rows/cols of the harness component equal the true pattern, so the sparsity the framework '
               'detects is the pattern',
               'min_improve_pct=0 so that a coloring is used whenever one is found']
MIN_JUDGED = {'quick': 30000, 'thorough': 250000}
REQUIRED_COUNTERS = ['contract:evaluations', 'contract:fwd', 'contract:rev', 'contract:auto-direct',
                     'contract:auto-substitution', 'contract:recursive-fallback', 'obs:bidirectional-result',
                     'obs:subtractions-nonempty', 'obs:expand_jac', 'hook:simul_coloring_jac_setter',
                     'hook:_colored_column_iter', 'hook:_apply_subtractions', 'obs:total-colored-vs-uncolored',
                     'obs:partial-colored-vs-uncolored', 'obs:execcomp-colored', 'cell:total/fwd', 'cell:total/rev',
                     'cell:total/auto', 'cell:total/substitution', 'cell:total/scaled', 'cell:partial/cs',
                     'cell:partial/fd']
SHARD_TIMEOUT = {'quick': 900, 'thorough': 3000}

_state = {'acc': None, 'installed': False, 'depth': 0, 'ctx': None}


class ContractBroken(AssertionError):
    pass


# ----------------------------------------------------------------------------------------------
# (a) the contract
# ----------------------------------------------------------------------------------------------
def _pattern_of(J):
    if isinstance(J, np.ndarray):
        return np.asarray(J) != 0
    return np.asarray(J.toarray()) != 0


def _maps(coloring, direction, n):
    """groups + per-index nonzero map taken from the coloring's own color_nonzero_iter."""
    groups, m = [], [None] * n
    for grp, nzs in coloring.color_nonzero_iter(direction):
        grp = [int(i) for i in grp]
        groups.append(grp)
        for i, nz in zip(grp, nzs):
            m[i] = None if nz is None else [int(k) for k in nz]
    return groups, m


def judge_coloring(P, mode, direct, coloring, acc, case):
    """All C03 clauses for one computed coloring.  Records into acc; returns nothing."""
    tag = mode if mode != 'auto' else ('auto-direct' if direct else 'auto-substitution')
    acc.count('contract:evaluations')
    acc.count('contract:' + tag)
    nr, nc = P.shape
    seed = int(np.packbits(P.ravel()).sum()) + 131 * nr + 17 * nc
    A = R.random_matrix(P, np.random.default_rng(seed))
    bad = [False]

    def viol(obs, what):
        acc.viol('contract:%s:%s' % (tag, obs), what, case, new_case=not bad[0])
        bad[0] = True
    fwd = rev = None
    try:
        if coloring._fwd:
            fwd = _maps(coloring, 'fwd', nc)
        if coloring._rev:
            rev = _maps(coloring, 'rev', nr)
        subs = coloring._subtractions
        if fwd and rev:
            acc.count('obs:bidirectional-result')
        if subs:
            acc.count('obs:subtractions-nonempty')
        Jr, cover = R.rebuild(A, fwd, rev, subs)
    except Exception as e:
        viol('rebuild-raises:%s' % type(e).__name__, str(e)[:200])
        return
    # 1. reconstruction
    if np.any(np.abs(Jr - A) > 1e-12 * 4.0 * max(nr, nc)):
        k = np.unravel_index(np.argmax(np.abs(Jr - A)), A.shape)
        viol('reconstruction-mismatch', 'entry %s rebuilt %r, true %r; pattern %s fwd=%s rev=%s subs=%s' %
             (tuple(int(v) for v in k), Jr[k], A[k], P.astype(int).tolist(), fwd and fwd[0], rev and rev[0],
              subs))
    # 2. exactly one color per column/row of the partition, every nonzero claimed once
    if np.any(cover[P] != 1):
        k = np.argwhere((cover != 1) & P)[0]
        viol('nonzero-claimed-%d-times' % int(cover[tuple(k)]), 'entry %s; pattern %s' %
             (tuple(int(v) for v in k), P.astype(int).tolist()))
    for name, dat, n, axis in (('column', fwd, nc, 0), ('row', rev, nr, 1)):
        if dat is None:
            continue
        cnt = R.group_membership(dat[0], n)
        owns = np.array([dat[1][i] is not None and len(dat[1][i]) > 0 for i in range(n)])
        if np.any(cnt > 1):
            viol('%s-in-several-groups' % name, '%s %d is in %d groups; pattern %s' %
                 (name, int(np.argmax(cnt)), int(cnt.max()), P.astype(int).tolist()))
        if np.any(owns & (cnt == 0)):
            viol('%s-in-no-group' % name, '%s %d owns nonzeros but is in no group' %
                 (name, int(np.argmax(owns & (cnt == 0)))))
    if mode == 'fwd' and rev is None and fwd is not None:
        has = P.any(axis=0)
        cnt = R.group_membership(fwd[0], nc)
        if np.any(has & (cnt != 1)):
            viol('column-not-in-exactly-one-group', 'columns %s' % np.nonzero(has & (cnt != 1))[0].tolist())
    if mode == 'rev' and fwd is None and rev is not None:
        has = P.any(axis=1)
        cnt = R.group_membership(rev[0], nr)
        if np.any(has & (cnt != 1)):
            viol('row-not-in-exactly-one-group', 'rows %s' % np.nonzero(has & (cnt != 1))[0].tolist())
    # 3. never more solves than uncolored
    try:
        ts = coloring.total_solves()
    except Exception as e:
        viol('total_solves-raises:%s' % type(e).__name__, str(e)[:200])
        ts = 0
    bound = nc if mode == 'fwd' else (nr if mode == 'rev' else min(nr, nc))
    if ts > bound:
        viol('more-solves-than-uncolored', 'total_solves()=%d > %d for %dx%d; pattern %s' %
             (ts, bound, nr, nc, P.astype(int).tolist()))
    # 4. the framework's own dense expansion (one-directional colorings)
    for direction, dat in (('fwd', fwd), ('rev', rev)):
        if dat is None or (fwd is not None and rev is not None):
            continue
        try:
            if direction == 'fwd':
                comp = np.zeros((nr, len(dat[0])))
                for k, cols in enumerate(dat[0]):
                    comp[:, k] = A[:, cols].sum(axis=1)
            else:
                comp = np.zeros((len(dat[0]), nc))
                for k, rows in enumerate(dat[0]):
                    comp[k, :] = A[rows, :].sum(axis=0)
            full = np.asarray(coloring._expand_jac(comp, direction).toarray())
            acc.count('obs:expand_jac')
            if np.any(np.abs(full - A) > 1e-12 * 4.0 * max(nr, nc)):
                viol('expand_jac-mismatch', '_expand_jac(%s) differs from the matrix; pattern %s' %
                     (direction, P.astype(int).tolist()))
        except Exception as e:
            viol('expand_jac-raises:%s' % type(e).__name__, str(e)[:200])
    if not bad[0]:
        nontriv = int(P.any(axis=0).sum()) >= 2 and int(P.any(axis=1).sum()) >= 2
        acc.ok(fingerprint([P.shape, np.packbits(P.ravel()).tolist(), mode, bool(direct)]), nontrivial=nontriv,
               sample=case if acc.judged % 50021 == 0 else None)


def post_reconstructs(J, mode, direct, result):
    """icontract post-condition of _compute_coloring: record-and-continue."""
    acc = _state['acc']
    if acc is None:
        return True
    try:
        P = _pattern_of(J)
        if _state['depth'] > 1:
            acc.count('contract:recursive-fallback')
        ctx = _state['ctx']
        case = {'kind': 'contract', 'shape': list(P.shape), 'pattern': P.astype(int).tolist(), 'mode': mode,
                'direct': bool(direct)}
        if ctx is not None:
            case['from'] = ctx
        judge_coloring(P, mode, direct, result, acc, case)
    except Exception as e:          # the monitor itself must never change the behaviour of the code under test
        acc.count('contract:monitor-error:%s' % type(e).__name__)
        acc.viol('monitor-error:%s' % type(e).__name__, str(e)[:300], {'kind': 'monitor-error'})
    return True


def install(acc):
    _state['acc'] = acc
    if _state['installed']:
        return
    import icontract
    import openmdao.utils.coloring as cm
    import openmdao.core.system as sysmod
    import openmdao.components.exec_comp as ecmod
    orig = cm._compute_coloring
    contracted = icontract.ensure(post_reconstructs, error=ContractBroken)(orig)

    def _compute_coloring(J, mode, direct=True):
        _state['depth'] += 1
        try:
            if _state['depth'] == 1:
                return contracted(J, mode, direct)
            # icontract suspends checking while a call of the same function is in progress (its re-entrancy
            # guard), so the recursive fwd/rev fallback calls of mode='auto' get the same named post-condition
            # applied by hand
            result = orig(J, mode, direct)
            post_reconstructs(J, mode, direct, result)
            return result
        finally:
            _state['depth'] -= 1
    _compute_coloring.__wrapped__ = orig
    cm._compute_coloring = _compute_coloring
    # aliases bound with `from ... import _compute_coloring` before decoration
    for mod in (sysmod, ecmod):
        if getattr(mod, '_compute_coloring', None) is orig:
            mod._compute_coloring = _compute_coloring
    # evidence hooks for the framework layer
    from openmdao.core.total_jac import _TotalJacInfo
    from openmdao.approximation_schemes.approximation_scheme import ApproximationScheme
    o1 = _TotalJacInfo.simul_coloring_jac_setter

    def jac_setter(self, inds, mode, meta):
        _state['acc'].count('hook:simul_coloring_jac_setter')
        return o1(self, inds, mode, meta)
    _TotalJacInfo.simul_coloring_jac_setter = jac_setter
    o2 = ApproximationScheme._colored_column_iter

    def colored_iter(self, system, colored_approx_groups):
        _state['acc'].count('hook:_colored_column_iter')
        return o2(self, system, colored_approx_groups)
    ApproximationScheme._colored_column_iter = colored_iter
    o3 = cm.Coloring._apply_subtractions

    def apply_subs(self, J):
        _state['acc'].count('hook:_apply_subtractions')
        return o3(self, J)
    cm.Coloring._apply_subtractions = apply_subs
    _state['installed'] = True


def call_contracted(P, mode, direct, acc):
    import openmdao.utils.coloring as cm
    before = acc.counters.get('contract:evaluations', 0)
    try:
        cm._compute_coloring(P.copy(), mode, direct=direct)
    except Exception as e:
        tag = mode if mode != 'auto' else ('auto-direct' if direct else 'auto-substitution')
        acc.viol('contract:%s:raises:%s' % (tag, type(e).__name__), str(e)[:300],
                 {'kind': 'contract', 'shape': list(P.shape), 'pattern': P.astype(int).tolist(), 'mode': mode,
                  'direct': bool(direct)})
        return
    if acc.counters.get('contract:evaluations', 0) == before:
        # a reference bound before decoration bypassed the contract: the run must not count as evidence
        acc.count('contract:bypassed')


COMBOS = [('fwd', True), ('rev', True), ('auto', True), ('auto', False)]


def pattern_from_bits(bits, shape):
    r, c = shape
    return np.array([(bits >> k) & 1 for k in range(r * c)], dtype=bool).reshape(r, c)


def structured_pattern(rng, n, m, kind):
    P = np.zeros((n, m), dtype=bool)
    d = min(n, m)
    if kind == 'arrow':
        P[np.arange(d), np.arange(d)] = True
        P[0, :] = True
        P[:, 0] = True
    elif kind == 'blockdiag+dense':
        bs = rng.choice([2, 3, 4])
        for s in range(0, d, bs):
            P[s:s + bs, s:s + bs] = True
        for _ in range(rng.choice([1, 1, 2])):
            if rng.random() < 0.5:
                P[rng.randrange(n), :] = True
            else:
                P[:, rng.randrange(m)] = True
    elif kind == 'banded':
        bw = rng.choice([1, 2, 3])
        for i in range(n):
            for j in range(max(0, i - bw), min(m, i + bw + 1)):
                P[i, j] = True
    elif kind == 'eisenstat':
        # Eisenstat-style: diagonal blocks plus a dense border block on both sides
        k = max(1, d // 3)
        P[np.arange(d), np.arange(d)] = True
        P[:k, :] = True
        P[:, :k] = True
        P[d - k:, d - k:] = True
    else:
        dens = rng.choice([0.05, 0.1, 0.2, 0.4])
        P = np.array([[rng.random() < dens for _ in range(m)] for _ in range(n)], dtype=bool)
    return P


# ----------------------------------------------------------------------------------------------
# (b) framework layer
# ----------------------------------------------------------------------------------------------
def gen_fw_case(rng, idx, layer):
    n1, n2 = rng.choice([1, 2, 3, 4]), rng.choice([1, 2, 3, 4])
    m1, m2 = rng.choice([1, 2, 3, 4]), rng.choice([1, 2, 3, 4])
    n, m = n1 + n2, m1 + m2
    kind = rng.choice(['arrow', 'blockdiag+dense', 'banded', 'eisenstat', 'random', 'random'])
    P = structured_pattern(rng, m, n, kind)
    if kind == 'random':
        P = np.array([[rng.random() < rng.choice([0.25, 0.5]) for _ in range(n)] for _ in range(m)], dtype=bool)
    # every row/column of each variable needs at least one nonzero somewhere so that responses depend on desvars
    for i in range(m):
        if not P[i].any():
            P[i, rng.randrange(n)] = True
    for j in range(n):
        if not P[:, j].any():
            P[rng.randrange(m), j] = True
    A = [[round(rng.uniform(1, 2), 4) if P[i, j] else 0.0 for j in range(n)] for i in range(m)]
    case = {'kind': layer, 'idx': idx, 'sizes': [n1, n2, m1, m2], 'pkind': kind, 'A': A,
            'g': rng.choice(['lin', 'sq']), 'x0': [round(rng.uniform(0.5, 1.5), 4) for _ in range(n)]}
    if layer == 'total':
        case['mode'] = rng.choice(['fwd', 'rev', 'auto', 'auto'])
        case['direct'] = rng.random() < 0.5
        if kind in ('arrow', 'eisenstat') and rng.random() < 0.7:
            case['mode'], case['direct'] = 'auto', False       # where substitution lists actually arise
        case['scaling'] = None
        if rng.random() < 0.5:
            case['scaling'] = {'dv': [[round(rng.uniform(0.2, 5), 3) for _ in range(k)] for k in (n1, n2)],
                               'con': [[round(rng.uniform(0.2, 5), 3) for _ in range(k)] for k in (m1, m2)]}
        case['driver_scaling'] = bool(case['scaling']) and rng.random() < 0.8
    else:
        case['method'] = rng.choice(['cs', 'cs', 'fd'])
    return case


def build_fw(case, colored):
    import openmdao.api as om
    n1, n2, m1, m2 = case['sizes']
    n, m = n1 + n2, m1 + m2
    A = np.array(case['A']).reshape(m, n)
    P = A != 0
    xs = {'x1': slice(0, n1), 'x2': slice(n1, n)}
    ys = {'y1': slice(0, m1), 'y2': slice(m1, m)}
    gname = case['g']
    approx = case['kind'] == 'partial'

    def g(x):
        return x if gname == 'lin' else x * x

    def gp(x):
        return np.ones_like(x) if gname == 'lin' else 2 * x

    class Pat(om.ExplicitComponent):
        def setup(self):
            self.add_input('x1', np.ones(n1))
            self.add_input('x2', np.ones(n2))
            self.add_output('y1', np.ones(m1))
            self.add_output('y2', np.ones(m2))
            if approx:
                self.declare_partials('*', '*', method=case['method'])
                if colored:
                    self.declare_coloring(wrt='*', method=case['method'], min_improve_pct=0., num_full_jacs=2,
                                          show_summary=False, show_sparsity=False)
            else:
                for yn, ysl in ys.items():
                    for xn, xsl in xs.items():
                        rows, cols = np.nonzero(P[ysl, xsl])
                        if rows.size:
                            self.declare_partials(yn, xn, rows=rows, cols=cols)

        def compute(self, inputs, outputs):
            x = np.concatenate([inputs['x1'], inputs['x2']])
            y = A.dot(g(x))
            outputs['y1'] = y[ys['y1']]
            outputs['y2'] = y[ys['y2']]

        def compute_partials(self, inputs, partials):
            if approx:
                return
            x = np.concatenate([inputs['x1'], inputs['x2']]).real
            Jf = A * gp(x)[None, :]
            for yn, ysl in ys.items():
                for xn, xsl in xs.items():
                    blk = Jf[ysl, xsl]
                    rows, cols = np.nonzero(P[ysl, xsl])
                    if rows.size:
                        partials[yn, xn] = blk[rows, cols]

    p = om.Problem()
    mdl = p.model
    ivc = mdl.add_subsystem('ivc', om.IndepVarComp())
    x0 = np.array(case['x0'], dtype=float)
    ivc.add_output('x1', x0[:n1])
    ivc.add_output('x2', x0[n1:])
    mdl.add_subsystem('c', Pat())
    mdl.connect('ivc.x1', 'c.x1')
    mdl.connect('ivc.x2', 'c.x2')
    sc = case.get('scaling')
    mdl.add_design_var('ivc.x1', scaler=np.array(sc['dv'][0]) if sc else None)
    mdl.add_design_var('ivc.x2', scaler=np.array(sc['dv'][1]) if sc else None)
    mdl.add_constraint('c.y1', upper=1e3, scaler=np.array(sc['con'][0]) if sc else None)
    mdl.add_constraint('c.y2', upper=1e3, scaler=np.array(sc['con'][1]) if sc else None)
    if colored and not approx:
        p.driver.declare_coloring(direct=case['direct'], min_improve_pct=0., num_full_jacs=2, show_summary=False,
                                  show_sparsity=False)
    p.setup(mode=case.get('mode', 'auto'), force_alloc_complex=True)
    p.run_model()
    return p, A, gp


def run_fw_case(case, acc):
    install(acc)
    layer = case['kind']
    n1, n2, m1, m2 = case['sizes']
    ds = bool(case.get('driver_scaling'))
    _state['ctx'] = layer
    p = p0 = None
    try:
        try:
            p, A, gp = build_fw(case, True)
            setter0 = acc.counters.get('hook:simul_coloring_jac_setter', 0)
            citer0 = acc.counters.get('hook:_colored_column_iter', 0)
            subs0 = acc.counters.get('hook:_apply_subtractions', 0)
            Jc = p.compute_totals(return_format='array', driver_scaling=ds)
            used_total = acc.counters.get('hook:simul_coloring_jac_setter', 0) > setter0
            used_partial = acc.counters.get('hook:_colored_column_iter', 0) > citer0
            used_subs = acc.counters.get('hook:_apply_subtractions', 0) > subs0
            p0, _, _ = build_fw(case, False)
            Ju = p0.compute_totals(return_format='array', driver_scaling=ds)
        except Exception as e:
            acc.viol('%s:raises:%s' % (layer, type(e).__name__), str(e)[:300], case)
            return
        x0 = np.array(case['x0'], dtype=float)
        Jx = A * gp(x0)[None, :]
        nonuniform = False
        if ds and case.get('scaling'):
            sdv = np.concatenate([np.array(v, dtype=float) for v in case['scaling']['dv']])
            scon = np.concatenate([np.array(v, dtype=float) for v in case['scaling']['con']])
            Jx = Jx * scon[:, None] / sdv[None, :]
            nonuniform = True
        scale = max(np.abs(Jx).max(), 1e-300)
        if layer == 'total':
            acc.count('obs:total-colored-vs-uncolored')
            acc.count('cell:total/%s' % case['mode'])
            if not case['direct']:
                acc.count('cell:total/substitution')
            if ds:
                acc.count('cell:total/scaled')
            tol = 1e-12 * scale
            used = used_total
            modetag = '%s:%s' % (case['mode'], 'direct' if case['direct'] else 'substitution')
        else:
            acc.count('obs:partial-colored-vs-uncolored')
            acc.count('cell:partial/%s' % case['method'])
            if case['method'] == 'cs':
                tol = 1e-11 * scale
            else:
                # forward difference, step 1e-6: truncation <= |A| * h for g=x^2 (g''=2), round-off 16 eps |f| / h
                fmax = np.abs(A).sum(axis=1).max() * 2.25
                tol = np.abs(A).max() * 1e-6 * 1.01 + 32 * np.finfo(float).eps * fmax / 1e-6
            used = used_partial
            modetag = case['method']
        bad = False
        if Jc.shape != Jx.shape or Ju.shape != Jx.shape:
            acc.viol('%s:%s:shape' % (layer, modetag), 'colored %s uncolored %s expected %s' %
                     (Jc.shape, Ju.shape, Jx.shape), case)
            return
        if np.any(np.abs(Ju - Jx) > tol):
            acc.skip('uncolored-differs-from-closed-form(not C03)')
            return
        d_cu = np.abs(Jc - Ju).max()
        d_cx = np.abs(Jc - Jx).max()
        if d_cu > (tol if layer == 'total' or case['method'] == 'cs' else 2 * tol) or d_cx > tol:
            k = np.unravel_index(np.argmax(np.abs(Jc - Jx)), Jx.shape)
            if layer == 'total' and used_subs and nonuniform:
                key = 'total:substitution-subtractions-applied-after-scaling:colored-differs-from-uncolored'
            else:
                key = '%s:%s:colored-differs-from-uncolored' % (layer, modetag)
            acc.viol(key, 'max|colored-uncolored|=%.3g, entry %s colored %r exact %r (driver_scaling=%s, '
                     'subtractions used=%s)' % (d_cu, tuple(int(v) for v in k), Jc[k], Jx[k], ds, used_subs), case)
            bad = True
        if not bad:
            if not used:
                acc.skip('coloring-not-used')
                return
            acc.ok(fingerprint([layer, case['sizes'], case['pkind'], (np.array(case['A']) != 0).astype(int).tolist(),
                                modetag, bool(case.get('scaling')), ds, case['g']]), nontrivial=True,
                   sample=case if case['idx'] % 37 == 0 else None)
    finally:
        _state['ctx'] = None
        for q in (p, p0):
            try:
                if q is not None:
                    q.cleanup()
            except Exception:
                pass


def run_execcomp_case(case, acc):
    import openmdao.api as om
    install(acc)
    n = case['n']
    x0 = np.array(case['x0'], dtype=float)
    exprs = case['exprs']
    _state['ctx'] = 'execcomp'
    res = {}
    ps = []
    try:
        for colored in (True, False):
            try:
                p = om.Problem()
                ps.append(p)
                p.model.add_subsystem('ivc', om.IndepVarComp('a', x0), promotes=['*'])
                p.model.add_subsystem('ivc2', om.IndepVarComp('b', x0[::-1].copy()), promotes=['*'])
                kw = {nm: {'shape': (n,)} for nm in ('a', 'b', 'y', 'z')}
                p.model.add_subsystem('e', om.ExecComp(exprs, do_coloring=colored, **kw), promotes=['*'])
                p.setup(force_alloc_complex=True)
                p.run_model()
                before = acc.counters.get('contract:evaluations', 0)
                res[colored] = p.compute_totals(of=['y', 'z'], wrt=['a', 'b'], return_format='array')
                if colored and (acc.counters.get('contract:evaluations', 0) > before or
                                p.model.e._coloring_info.coloring is not None):
                    acc.count('obs:execcomp-colored')
            except Exception as e:
                acc.viol('execcomp:raises:%s' % type(e).__name__, str(e)[:300], case)
                return
        # closed form for the fixed expression families
        a, b = x0, x0[::-1]
        Z = np.zeros((n, n))
        fam = case['family']
        if fam == 0:      # y = 3*a + b**2 ; z = a*b
            Jx = np.block([[3 * np.eye(n), np.diag(2 * b)], [np.diag(b), np.diag(a)]])
        elif fam == 1:    # y = sin(a) ; z = 2*b
            Jx = np.block([[np.diag(np.cos(a)), Z], [Z, 2 * np.eye(n)]])
        else:             # y = a*sum(b) ; z = b
            Jx = np.block([[b.sum() * np.eye(n), np.outer(a, np.ones(n))], [Z, np.eye(n)]])
        tol = 1e-11 * np.abs(Jx).max()
        if np.any(np.abs(res[False] - Jx) > tol):
            acc.skip('uncolored-differs-from-closed-form(not C03)')
            return
        if np.any(np.abs(res[True] - res[False]) > tol) or np.any(np.abs(res[True] - Jx) > tol):
            acc.viol('execcomp:colored-differs-from-uncolored', 'max diff %.3g' %
                     np.abs(res[True] - res[False]).max(), case)
            return
        acc.ok(fingerprint(['execcomp', n, fam]), sample=None)
    finally:
        _state['ctx'] = None
        for q in ps:
            try:
                q.cleanup()
            except Exception:
                pass


EXEC_FAMILIES = [['y = 3*a + b**2', 'z = a*b'], ['y = sin(a)', 'z = 2*b'], ['y = a*sum(b)', 'z = b']]


# ----------------------------------------------------------------------------------------------
# framework entry points
# ----------------------------------------------------------------------------------------------
def enum_shapes(tier):
    if tier == 'quick':
        return [(r, c) for r in range(1, 5) for c in range(1, 5) if r * c <= 12 and (r, c) != (4, 4)]
    return [(r, c) for r in range(1, 5) for c in range(1, 5)]


def shards(tier, seed):
    out = []
    # exhaustive enumeration, split so that no shard exceeds ~2^12 patterns (quick) / 2^13 (thorough)
    chunk = 1024 if tier == 'quick' else 4096
    small = []
    for shp in enum_shapes(tier):
        total = 1 << (shp[0] * shp[1])
        if total <= 512:
            small.append(list(shp))
            continue
        for lo in range(0, total, chunk):
            out.append({'kind': 'enum', 'shapes': [list(shp)], 'lo': lo, 'hi': min(total, lo + chunk)})
    out.append({'kind': 'enum', 'shapes': small, 'lo': 0, 'hi': None})
    nr = 4 if tier == 'quick' else 16
    for k in range(nr):
        out.append({'kind': 'random', 'seed': seed * 1000 + k, 'n': 500 if tier == 'quick' else 1250})
    nf = 6 if tier == 'quick' else 16
    for k in range(nf):
        out.append({'kind': 'framework', 'seed': seed * 1000 + 300 + k, 'n': 50 if tier == 'quick' else 150})
    return out


def run_shard(shard, acc):
    install(acc)
    if shard['kind'] == 'enum':
        for shp in shard['shapes']:
            shp = tuple(shp)
            total = 1 << (shp[0] * shp[1])
            lo = shard['lo']
            hi = shard['hi'] if shard['hi'] is not None else total
            for bits in range(lo, min(hi, total)):
                P = pattern_from_bits(bits, shp)
                for mode, direct in COMBOS:
                    call_contracted(P, mode, direct, acc)
            acc.count('enumerated-patterns', min(hi, total) - lo)
    elif shard['kind'] == 'random':
        rng = random.Random(shard['seed'])
        for i in range(shard['n']):
            big = rng.random() < 0.25
            n = rng.randrange(2, 41 if big else 13)
            m = rng.randrange(2, 41 if big else 13)
            kind = rng.choice(['arrow', 'blockdiag+dense', 'banded', 'eisenstat', 'random', 'random', 'random'])
            P = structured_pattern(rng, n, m, kind)
            for mode, direct in COMBOS:
                call_contracted(P, mode, direct, acc)
            acc.count('random-patterns')
    elif shard['kind'] == 'framework':
        rng = random.Random(shard['seed'])
        for i in range(shard['n']):
            k = i % 10
            try:
                if k < 6:
                    run_fw_case(gen_fw_case(rng, i, 'total'), acc)
                elif k < 9:
                    run_fw_case(gen_fw_case(rng, i, 'partial'), acc)
                else:
                    fam = rng.randrange(3)
                    n = rng.choice([2, 3, 5])
                    run_execcomp_case({'kind': 'execcomp', 'n': n, 'family': fam, 'exprs': EXEC_FAMILIES[fam],
                                       'x0': [round(rng.uniform(0.5, 1.5), 4) for _ in range(n)]}, acc)
            except Exception as e:
                import traceback
                acc.viol('harness-error:%s' % type(e).__name__, traceback.format_exc()[-500:], {'kind': 'harness'})


def run_case(case, acc):
    install(acc)
    if case['kind'] == 'contract':
        if case.get('from'):
            acc.count('replay:contract-case-originated-in-framework-layer')
        P = np.array(case['pattern'], dtype=bool).reshape(case['shape'])
        call_contracted(P, case['mode'], case['direct'], acc)
    elif case['kind'] in ('total', 'partial'):
        run_fw_case(case, acc)
    elif case['kind'] == 'execcomp':
        run_execcomp_case(case, acc)


def coverage_extra(tier, agg):
    shp = enum_shapes(tier)
    return {'exhaustive': True,
            'exhaustive_subspace': 'contract layer: all %d boolean patterns of the shapes %s x {fwd, rev, auto-direct, '
                                   'auto-substitution}; everything else (random/structured patterns, framework layer) '
                                   'is sampled' % (agg['counters'].get('enumerated-patterns', 0), shp)}
