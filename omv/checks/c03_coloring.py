"""C03 - Simultaneous-derivative coloring reconstructs every Jacobian entry.

Two layers.

(a) CONTRACT on openmdao.utils.coloring._compute_coloring (icontract `ensure`, named conditions, record-and-
    continue).  Every call - including the recursive fwd/rev fallback calls made by mode='auto' - is judged:
    a matrix A with the call's sparsity pattern (entries uniform in [1, 2]) is compressed into A@V (fwd colors)
    and W.T@A (rev colors) and rebuilt through the coloring's own color_nonzero_iter maps and substitution list
    (omv/ref/colorrec.py); rebuilt == A; every column (row) that owns nonzeros is in exactly one fwd (rev)
    group; every nonzero is claimed exactly once; total_solves() <= ncols / nrows / min; for one-directional
    colorings Coloring._expand_jac(compressed) == A as well.
    Driven by exhaustive enumeration of all boolean patterns of the tier's shapes x {fwd, rev, auto-direct,
    auto-substitution} and by random/structured patterns up to 40x40.

(b) FRAMEWORK: a harness component y = A g(x) (two inputs, two outputs, partials declared rows/cols = the
    pattern) under ivc; (i) driver.declare_coloring(direct=...) and compute_totals in fwd/rev/auto, with and
    without driver scaling (non-uniform scalers): colored == uncolored == closed form; (ii) the same component
    with approximated partials (cs/fd) + declare_coloring: colored partials == uncolored == closed form;
    (iii) ExecComp(do_coloring=True) vs do_coloring=False.  Hooks count that the colored code paths ran
    (_TotalJacInfo.simul_coloring_jac_setter, ApproximationScheme._colored_column_iter,
    Coloring._apply_subtractions).

(b2) CALL SHAPE ('calls' shards): the harness with 2-4 design variables and 2-3 responses (optionally an objective
    declared after a constraint, promoted names != source names, desvar / constraint indices, array scalers) whose
    driver has a total coloring - dynamic, or use_fixed_coloring(Coloring object | file) - and its uncolored twin
    receive the same SEQUENCE of 5-7 calls: compute_totals / check_totals / Driver._compute_totals with no
    arguments, only of=, only wrt=, both; lists in driver order (by name or by source name), permuted, in
    declaration order, subsets, permuted subsets; return formats array / dict / flat_dict; driver_scaling;
    coloring_info=False or a caller-owned dynamic ColoringMeta.  In a third of the sequences a one-sided custom call
    comes first (before any coloring exists) and is followed at once by the driver-order call.  Every result of
    both problems must equal the closed form A g'(x) restricted / permuted / scaled accordingly, so a coloring that
    is applied to a jacobian laid out differently from the one it was made for, or a stored coloring replaced by
    one made for other lists, shows as a wrong entry or an exception.  A sequence is judged up to its first
    violation.

(b3) PARTIAL COLORING OVER SOME COLUMNS ('partialsub' shards): explicit and implicit harness components with
    declare_coloring(wrt=<'*' | first | middle | last | several inputs | glob | output columns of an implicit
    component>, method cs/fd), dynamic or loaded from file; the other columns have analytic dense / analytic sparse
    / uncolored approximated partials; approximations declared per column, per nonzero block or only implied by
    declare_coloring.  Judged: totals through the component with the partial coloring == uncolored == closed
    form, and again with a dynamic driver total coloring on top (which consumes the sub-jacobian sparsity the
    component reports after coloring).

(c) THE COLORING TRAVELS.  A Coloring is written to a file by every dynamic coloring, read back by
    use_fixed_coloring, pickled for the MPI broadcast, copied.  Contract layer: every judged coloring is also judged
    AFTER pickle.dumps/loads (all), copy.deepcopy and Coloring.save -> Coloring.load (every 4th), twice through a
    file, copy.copy and pickle protocol 2 (every 32nd) - and all of these for EVERY coloring with a
    non-empty subtraction list: groups, nonzero maps, subtraction list (content and order), shape, nonzero pattern,
    total_solves / modes, names, metadata equal the original's; the matrix rebuilt from the copy's data == A; the
    copy's _expand_jac == A.  Framework layer ('reload' shards): problem 1 computes a dynamic total coloring (mostly
    mode auto + direct=False on patterns with dense rows AND columns, where substitution lists arise) or a partial
    coloring; problem 2 receives it by use_fixed_coloring(<file saved with Coloring.save> | <file run 1 wrote
    itself> | <file written by compute_total_coloring(fname=)> | no argument = the standard file of the coloring
    directory of a problem of the same name | pickled / deep-copied object); a third problem reads the file problem 2
    re-saved.  Each problem's compute_totals (twice, with / without driver scaling) == uncolored twin == closed form.

(b5) HISTORIES ('history' shards, omv/gen/c03_hist.py): ONE component that colours its own partials - ExecComp with
    its automatic colouring (twin: do_coloring=False), ExecComp / explicit / implicit harness component with
    declare_partials(method cs | fd, form) + declare_coloring (twin: no declare_coloring) - below an ivc (optionally
    behind a scaling component, optionally solved by Newton), set up with force_alloc_complex=True (10 %: real
    vectors), is driven through a history of public-API operations that leave imaginary parts / perturbations in the
    vectors or need them clean: compute_totals, a hand-made complex step (set_complex_step_mode(True); set_val(x + ihd);
    run_model; set_complex_step_mode(False)), check_partials(cs | fd), check_totals(cs | fd) (with Newton: the model's
    complex step makes Newton linearize the component UNDER complex step), run_linearize, run_model, a new point;
    the first dirtying operation comes before or after the colouring exists.  The coloured problem and its twin get the
    same history; every derivative either returns (totals, check_partials' J_fwd of the component, check_totals'
    J_fwd / J_rev, the hand-made directional derivative, the model-level cs totals through Newton) must equal the
    closed form at the current point and the twin's value, and the component's outputs must stay what the model
    computed.  Counters show that a linearization that REUSES a colouring really met imaginary parts in its inputs.

(b6) APPROXIMATED TOTALS ('atot' shards): 1-3 independent chains ivc.x_k -> c_k (y_k = A_k g(x_k)), optionally an
    objective over one / two chains, a component joining two chains, a component no response depends on;
    model.approx_totals(cs | fd, form) with the colouring declared on the driver (computed by an optimizer run), on the
    model, or both; design variables and constraints with indices (sorted / unordered sub-lists), scalers.  Calls:
    compute_totals twice, then Driver._compute_totals / driver-scaled totals / a new point.  Coloured == uncoloured twin
    == closed form; the call during which the colouring is computed is judged too (separate key class, does not end the
    sequence).
"""
import itertools
import random

import numpy as np

from omv.core import fingerprint
from omv.ref import colorrec as R

PROPERTY = 'C03'
LEVEL = 'exploration'
TECHNIQUE = 'runtime monitoring: icontract post-condition on _compute_coloring + colored-vs-uncolored differential'
RULE = ('contract layer: ALL boolean patterns of the enumerated shapes x {fwd, rev, auto-direct, '
        'auto-substitution} (+ the recursive fallback calls), plus random and structured (arrow, block-diagonal + '
        'dense rows/cols, banded, Eisenstat-like) patterns up to 40x40; framework layer: random/structured '
        'patterns up to 8x8 x mode {fwd, rev, auto} x {direct, substitution} x scaling {none, array scalers with '
        'driver_scaling}, partial coloring with cs/fd, ExecComp coloring; call-shape layer: random sequences of '
        'compute_totals/check_totals/driver calls x {no args, of only, wrt only, both} x {driver order, source '
        'names, permuted, declaration order, subset, permuted subset} x return format x driver_scaling x '
        'coloring_info on problems with dynamic / fixed total coloring (sequence position of the first driver-order '
        'call varied); partial-subset layer: declare_coloring(wrt=subset) x position of the subset x explicit / '
        'implicit x analytic / approximated other columns x dynamic / fixed, alone and under a total coloring; '
        'serialization: every contract-layer coloring x {pickle, deepcopy, file, file twice, copy, pickle protocol 2} '
        '(sub-sampled except for colorings with subtractions), reload layer: total (dense-row-and-column patterns '
        'up to 9x9, mode, direct / substitution, scaling) and partial colorings x way the second problem receives '
        'the coloring {saved file, run-1 file, offline file, standard directory, third run, pickled / deep-copied '
        'object}; history layer: component kind {ExecComp automatic, ExecComp / explicit / implicit with '
        'declare_coloring} x method {cs, fd x form} x {complex, real vectors} x random histories of compute_totals / '
        'hand-made complex step / check_partials / check_totals / run_linearize / run_model / new point (dirtied before '
        'or after the colouring exists, Newton linearizing under complex step); approximated-totals layer: 1-3 '
        'independent chains x {cs, fd} x colouring declared on {driver, model, both} x design-variable / constraint '
        'indices x objective / joining / idle component x call sequence; '
        'distinct = distinct (pattern, mode, direct) resp. structural description; non-trivial = pattern has at '
        'least two nonzero columns and rows resp. the coloring was actually used')
LEVEL_TEXT = ('exhaustive over the enumerated shapes for the coloring/reconstruction contract; sampled for larger '
              'patterns and for the framework paths')
ASSUMPTIONS = ['matrix entries in [1, 2]: no cancellation, reconstruction is exact up to 1e-12 relative',
               'the framework rebuilds J by writing compressed results through get_row_col_map and then applying '
               'Coloring._subtractions in list order; the reference does the same with its own three lines',
               'declared rows/cols of the harness component equal the true pattern, so the sparsity the framework '
               'detects is the pattern',
               'min_improve_pct=0 so that a coloring is used whenever one is found',
               'call-shape layer: what driver_scaling / constraint indices mean for a variable that is named by its '
               'source instead of its driver name is not judged (such combinations are not generated); a call whose '
               'UNCOLORED twin already differs from the closed form is not judged (counted)',
               'Driver._compute_totals() (private) is called without arguments only - it is what every optimizer '
               'driver calls each iteration',
               'history layer: only operations of the public API in their documented order; check_partials never '
               'with the method + step the component approximates with (OpenMDAO refuses that comparison); ExecComps '
               'are not given to check_partials (it leaves them out) and never sit under a complex-stepped Newton solve '
               '(documented RuntimeError); an operation on which the UNCOLOURED twin raises or differs from the closed '
               'form ends the case unjudged (counted) - what stale imaginary parts do to uncoloured approximations is not '
               'C03; tolerances: cs 1e-11 relative, fd = step/2 * bound of the second derivatives + 64 eps |f| / step, '
               'Newton adds the error of a solve with the approximated dR/dy',
               'approximated-totals layer: a colouring declared on the driver only is computed by an optimizer run '
               '(one SLSQP iteration), declared on the model by the first linearization',
               'copies: a copy / reloaded coloring must hold the same plain data as the original (groups, nonzero '
               'maps, subtraction list in the same order); None, {} and [] all mean "no subtractions"; Coloring.load '
               'may ADD metadata (timestamp, source) '
               'but must keep what was saved; a problem with the same name and working directory as an earlier one '
               'reads that one\'s coloring files when use_fixed_coloring() is given no file (documented standard '
               'location)']
MIN_JUDGED = {'quick': 30000, 'thorough': 250000}
REQUIRED_COUNTERS = ['contract:evaluations', 'contract:fwd', 'contract:rev', 'contract:auto-direct',
                     'contract:auto-substitution', 'contract:recursive-fallback', 'obs:bidirectional-result',
                     'obs:subtractions-nonempty', 'obs:expand_jac', 'hook:simul_coloring_jac_setter',
                     'hook:_colored_column_iter', 'hook:_apply_subtractions', 'obs:total-colored-vs-uncolored',
                     'obs:partial-colored-vs-uncolored', 'obs:execcomp-colored', 'cell:total/fwd', 'cell:total/rev',
                     'cell:total/auto', 'cell:total/substitution', 'cell:total/scaled', 'cell:partial/cs',
                     'cell:partial/fd',
                     'obs:calls-colored-vs-uncolored', 'cell:calls/none', 'cell:calls/wrt-only', 'cell:calls/of-only',
                     'cell:calls/both', 'cell:calls/one-sided-custom',
                     'cell:calls/one-sided-custom-before-coloring-exists', 'cell:calls/list-perm',
                     'cell:calls/list-subset', 'cell:calls/list-subperm', 'cell:calls/dynamic',
                     'cell:calls/fixed-file', 'cell:calls/fixed-object', 'cell:calls/api-check_totals',
                     'cell:calls/api-driver', 'cell:calls/fmt-dict', 'cell:calls/fmt-flat_dict',
                     'cell:calls/objective-declared-after-a-constraint', 'obs:calls-coloring-used/driver-order',
                     'obs:calls-coloring-used-in-driver-order-call-after-custom-call',
                     'obs:partialsub-colored-vs-uncolored', 'obs:partialsub-total-coloring-on-top-used',
                     'cell:partialsub/all', 'cell:partialsub/first', 'cell:partialsub/middle',
                     'cell:partialsub/last', 'cell:partialsub/several', 'cell:partialsub/implicit',
                     'cell:partialsub/explicit', 'cell:partialsub/dynamic', 'cell:partialsub/fixed-file',
                     'obs:copy/pickle', 'obs:copy/deepcopy', 'obs:copy/file', 'obs:copy/file-twice', 'obs:copy/copy',
                     'obs:copy-with-subtractions/pickle', 'obs:copy-with-subtractions/deepcopy',
                     'obs:copy-with-subtractions/file', 'obs:copy-with-subtractions/file-twice',
                     'obs:expand_jac-of-copy', 'obs:reload-colored-vs-uncolored',
                     'obs:reload-coloring-has-subtractions/file', 'obs:reload-coloring-has-subtractions/object-copy',
                     'obs:reload-subtractions-applied-after-reload', 'obs:reload-third-run-used-resaved-file',
                     'obs:reload-bidirectional-coloring', 'cell:reload/substitution', 'cell:reload/scaled',
                     'cell:reload/total/file', 'cell:reload/total/run1-file', 'cell:reload/total/std-dir',
                     'cell:reload/total/third-run', 'cell:reload/total/compute_total_coloring-fname',
                     'cell:reload/total/pickled-object', 'cell:reload/total/deepcopied-object',
                     'cell:reload/partial/file', 'cell:reload/partial/run1-file', 'cell:reload/partial/std-dir',
                     'cell:reload/partial/third-run', 'cell:reload/partial/pickled-object',
                     'obs:hist-colored-vs-uncolored', 'cell:hist/exec-auto', 'cell:hist/exec-declared',
                     'cell:hist/pat-explicit', 'cell:hist/pat-implicit', 'cell:hist/cs', 'cell:hist/fd',
                     'cell:hist/totals-after-manual-cs', 'cell:hist/totals-after-check-totals',
                     'cell:hist/totals-after-check-partials', 'cell:hist/dirtied-before-the-coloring-exists',
                     'cell:hist/imaginary-residue-in-the-inputs-of-a-linearization-that-reuses-the-coloring/exec-auto',
                     'cell:hist/imaginary-residue-in-the-inputs-of-a-linearization-that-reuses-the-coloring',
                     'obs:hist-op/manual-cs', 'obs:hist-op/check-totals', 'obs:hist-op/check-partials',
                     'obs:atot-colored-vs-uncolored', 'cell:atot/cs', 'cell:atot/fd', 'cell:atot/decl-driver',
                     'cell:atot/decl-model', 'cell:atot/decl-both', 'cell:atot/dv-indices-and-several-chains',
                     'cell:atot/con-indices', 'cell:atot/chains-2', 'cell:atot/chains-3']
SHARD_TIMEOUT = {'quick': 900, 'thorough': 3000}

_state = {'acc': None, 'installed': False, 'depth': 0, 'ctx': None}


class ContractBroken(AssertionError):
    pass


# ----------------------------------------------------------------------------------------------
# (a) the contract
# ----------------------------------------------------------------------------------------------
def _pattern_of(J):
    if isinstance(J, np.ndarray):
        return np.asarray(J) != 0
    return np.asarray(J.toarray()) != 0


def _maps(coloring, direction, n):
    """groups + per-index nonzero map taken from the coloring's own color_nonzero_iter."""
    groups, m = [], [None] * n
    for grp, nzs in coloring.color_nonzero_iter(direction):
        grp = [int(i) for i in grp]
        groups.append(grp)
        for i, nz in zip(grp, nzs):
            m[i] = None if nz is None else [int(k) for k in nz]
    return groups, m


def judge_coloring(P, mode, direct, coloring, acc, case):
    """All C03 clauses for one computed coloring.  Records into acc; returns nothing."""
    tag = mode if mode != 'auto' else ('auto-direct' if direct else 'auto-substitution')
    acc.count('contract:evaluations')
    acc.count('contract:' + tag)
    nr, nc = P.shape
    seed = int(np.packbits(P.ravel()).sum()) + 131 * nr + 17 * nc
    A = R.random_matrix(P, np.random.default_rng(seed))
    bad = [False]

    def viol(obs, what):
        acc.viol('contract:%s:%s' % (tag, obs), what, case, new_case=not bad[0])
        bad[0] = True
    fwd = rev = None
    try:
        if coloring._fwd:
            fwd = _maps(coloring, 'fwd', nc)
        if coloring._rev:
            rev = _maps(coloring, 'rev', nr)
        subs = coloring._subtractions
        if fwd and rev:
            acc.count('obs:bidirectional-result')
        if subs:
            acc.count('obs:subtractions-nonempty')
        Jr, cover = R.rebuild(A, fwd, rev, subs)
    except Exception as e:
        viol('rebuild-raises:%s' % type(e).__name__, str(e)[:200])
        return
    # 1. reconstruction
    if np.any(np.abs(Jr - A) > 1e-12 * 4.0 * max(nr, nc)):
        k = np.unravel_index(np.argmax(np.abs(Jr - A)), A.shape)
        viol('reconstruction-mismatch', 'entry %s rebuilt %r, true %r; pattern %s fwd=%s rev=%s subs=%s' %
             (tuple(int(v) for v in k), Jr[k], A[k], P.astype(int).tolist(), fwd and fwd[0], rev and rev[0],
              subs))
    # 2. exactly one color per column/row of the partition, every nonzero claimed once
    if np.any(cover[P] != 1):
        k = np.argwhere((cover != 1) & P)[0]
        viol('nonzero-claimed-%d-times' % int(cover[tuple(k)]), 'entry %s; pattern %s' %
             (tuple(int(v) for v in k), P.astype(int).tolist()))
    for name, dat, n, axis in (('column', fwd, nc, 0), ('row', rev, nr, 1)):
        if dat is None:
            continue
        cnt = R.group_membership(dat[0], n)
        owns = np.array([dat[1][i] is not None and len(dat[1][i]) > 0 for i in range(n)])
        if np.any(cnt > 1):
            viol('%s-in-several-groups' % name, '%s %d is in %d groups; pattern %s' %
                 (name, int(np.argmax(cnt)), int(cnt.max()), P.astype(int).tolist()))
        if np.any(owns & (cnt == 0)):
            viol('%s-in-no-group' % name, '%s %d owns nonzeros but is in no group' %
                 (name, int(np.argmax(owns & (cnt == 0)))))
    if mode == 'fwd' and rev is None and fwd is not None:
        has = P.any(axis=0)
        cnt = R.group_membership(fwd[0], nc)
        if np.any(has & (cnt != 1)):
            viol('column-not-in-exactly-one-group', 'columns %s' % np.nonzero(has & (cnt != 1))[0].tolist())
    if mode == 'rev' and fwd is None and rev is not None:
        has = P.any(axis=1)
        cnt = R.group_membership(rev[0], nr)
        if np.any(has & (cnt != 1)):
            viol('row-not-in-exactly-one-group', 'rows %s' % np.nonzero(has & (cnt != 1))[0].tolist())
    # 3. never more solves than uncolored
    try:
        ts = coloring.total_solves()
    except Exception as e:
        viol('total_solves-raises:%s' % type(e).__name__, str(e)[:200])
        ts = 0
    bound = nc if mode == 'fwd' else (nr if mode == 'rev' else min(nr, nc))
    if ts > bound:
        viol('more-solves-than-uncolored', 'total_solves()=%d > %d for %dx%d; pattern %s' %
             (ts, bound, nr, nc, P.astype(int).tolist()))
    # 4. the framework's own dense expansion (one-directional colorings)
    for direction, dat in (('fwd', fwd), ('rev', rev)):
        if dat is None or (fwd is not None and rev is not None):
            continue
        try:
            if direction == 'fwd':
                comp = np.zeros((nr, len(dat[0])))
                for k, cols in enumerate(dat[0]):
                    comp[:, k] = A[:, cols].sum(axis=1)
            else:
                comp = np.zeros((len(dat[0]), nc))
                for k, rows in enumerate(dat[0]):
                    comp[k, :] = A[rows, :].sum(axis=0)
            full = np.asarray(coloring._expand_jac(comp, direction).toarray())
            acc.count('obs:expand_jac')
            if np.any(np.abs(full - A) > 1e-12 * 4.0 * max(nr, nc)):
                viol('expand_jac-mismatch', '_expand_jac(%s) differs from the matrix; pattern %s' %
                     (direction, P.astype(int).tolist()))
        except Exception as e:
            viol('expand_jac-raises:%s' % type(e).__name__, str(e)[:200])
    # 5. the coloring is still the same coloring after it has been copied / pickled / written to a file and read back
    if not bad[0]:
        try:
            judge_copies(P, A, coloring, (fwd, rev, subs), ts, viol, acc)
        except Exception as e:
            viol('copies:monitor-raises:%s' % type(e).__name__, str(e)[:200])
    if not bad[0]:
        nontriv = int(P.any(axis=0).sum()) >= 2 and int(P.any(axis=1).sum()) >= 2
        acc.ok(fingerprint([P.shape, np.packbits(P.ravel()).tolist(), mode, bool(direct)]), nontrivial=nontriv,
               sample=case if acc.judged % 50021 == 0 else None)


# how a Coloring travels: Coloring.save -> Coloring.load (every coloring file: use_fixed_coloring(<file>), the coloring
# directory of a previous run, `openmdao total_coloring`), pickle (the MPI bcast of compute_total_coloring), copies
# Cost control: pickle for every judged coloring; the dearer ways for every k-th one AND for every coloring that has
# a non-empty subtraction list (the only part of a coloring that cannot be recomputed from the rest).
EVERY = {'pickle': 1, 'deepcopy': 4, 'file': 4, 'file-twice': 32, 'copy': 32, 'pickle-protocol-2': 32}
_rt = {'dir': None}


def _norm_subs(subs):
    """Subtraction list as plain ints; None / {} / [] all mean 'no subtractions'."""
    if not subs:
        return []
    return [((int(pos[0]), int(pos[1])), [(int(a), int(b)) for a, b in lst]) for pos, lst in subs]


def _copies_of(coloring, n, everything):
    """(how, callable making the copy) - the ways a Coloring object is duplicated / serialized."""
    import copy
    import os
    import pickle
    import tempfile
    import openmdao.utils.coloring as cm
    if _rt['dir'] is None:
        # a memory-backed directory where there is one: open(..., 'wb') on the disk-backed /tmp costs milliseconds
        shm = '/dev/shm' if os.path.isdir('/dev/shm') and os.access('/dev/shm', os.W_OK) else None
        _rt['dir'] = tempfile.mkdtemp(prefix='c03rt', dir=shm)
        import atexit
        import shutil
        atexit.register(shutil.rmtree, _rt['dir'], True)
    fn = os.path.join(_rt['dir'], 'roundtrip_coloring.pkl')

    def through_file():
        coloring.save(fn)
        return cm.Coloring.load(fn)

    def twice_through_file():          # what a second run does: load, save to its own directory; a third run loads that
        coloring.save(fn)
        c1 = cm.Coloring.load(fn)
        c1.save(fn)
        return cm.Coloring.load(fn)
    ways = [('pickle', lambda: pickle.loads(pickle.dumps(coloring, protocol=pickle.HIGHEST_PROTOCOL))),
            ('deepcopy', lambda: copy.deepcopy(coloring)),
            ('file', through_file), ('file-twice', twice_through_file),
            ('copy', lambda: copy.copy(coloring)),
            ('pickle-protocol-2', lambda: pickle.loads(pickle.dumps(coloring, protocol=2)))]
    return [(how, make) for how, make in ways if everything or n % EVERY[how] == 0]


def judge_copies(P, A, coloring, orig, ts, viol, acc):
    """Every way of duplicating / serializing the coloring must give an object that describes the same coloring:
    same groups, nonzero maps, subtraction list (content and order), shape, nonzero pattern, solve counts, names and
    metadata - and the matrix rebuilt from the COPY's data must equal A.  One violation per defective copy: the key
    names the first aspect that differs, the text lists all of them."""
    import openmdao.utils.coloring as cm
    nr, nc = P.shape
    fwd, rev, subs = orig
    nsubs = _norm_subs(subs)
    n = acc.counters.get('contract:evaluations', 0)
    tolr = 1e-12 * 4.0 * max(nr, nc)
    for how, make in _copies_of(coloring, n, bool(nsubs)):
        where = 'after-%s' % how
        try:
            c2 = make()
        except Exception as e:
            viol('%s:raises:%s' % (where, type(e).__name__), str(e)[:200])
            continue
        acc.count('obs:copy/%s' % how)
        if nsubs:
            acc.count('obs:copy-with-subtractions/%s' % how)
        if not isinstance(c2, cm.Coloring):
            viol('%s:not-a-Coloring' % where, 'got %s' % type(c2).__name__)
            continue
        try:
            fwd2 = _maps(c2, 'fwd', nc) if c2._fwd else None
            rev2 = _maps(c2, 'rev', nr) if c2._rev else None
            subs2 = c2._subtractions
            nsubs2 = _norm_subs(subs2)
            # identical plain data => identical rebuilt matrix (the original's has just been compared with A)
            Jr2 = A if (fwd2 == fwd and rev2 == rev and nsubs2 == nsubs) else R.rebuild(A, fwd2, rev2, subs2)[0]
        except Exception as e:
            viol('%s:rebuild-raises:%s' % (where, type(e).__name__), str(e)[:200])
            continue
        diffs = []          # (aspect, text)
        if nsubs2 != nsubs:
            diffs.append(('subtractions-differ', 'subtractions: original %s, copy %s' %
                          (nsubs, subs2 if not subs2 else nsubs2)))
        if (fwd is None) != (fwd2 is None) or (rev is None) != (rev2 is None):
            diffs.append(('directions-differ', 'original fwd=%s rev=%s, copy fwd=%s rev=%s' %
                          (fwd is not None, rev is not None, fwd2 is not None, rev2 is not None)))
        else:
            for name, a, b in (('fwd', fwd, fwd2), ('rev', rev, rev2)):
                if a is not None and a[0] != b[0]:
                    diffs.append(('%s-groups-differ' % name, '%s groups: original %s, copy %s' % (name, a[0], b[0])))
                if a is not None and a[1] != b[1]:
                    diffs.append(('%s-nonzero-map-differs' % name, '%s nonzero map: original %s, copy %s' %
                                  (name, a[1], b[1])))
        try:
            if not (tuple(c2._shape) == tuple(coloring._shape) and
                    np.array_equal(c2._nzrows, coloring._nzrows) and np.array_equal(c2._nzcols, coloring._nzcols)):
                diffs.append(('shape-or-nonzero-pattern-differs', 'shape %s -> %s' % (coloring._shape, c2._shape)))
            sol = (c2.total_solves(), c2.total_solves(rev=False), c2.total_solves(fwd=False), c2.modes())
            sol0 = (ts, coloring.total_solves(rev=False), coloring.total_solves(fwd=False), coloring.modes())
            if sol != sol0:
                diffs.append(('solve-counts-differ', 'total/fwd/rev/modes original %s, copy %s' % (sol0, sol)))
            for att in ('_row_vars', '_col_vars', '_row_var_sizes', '_col_var_sizes'):
                a, b = getattr(coloring, att), getattr(c2, att, 'missing')
                if (a is None) != (b is None) or (a is not None and list(a) != list(b)):
                    diffs.append(('%s-differs' % att.strip('_'), '%s: original %r, copy %r' % (att, a, b)))
            m0, m2 = coloring._meta, c2._meta
            lost = [k for k in m0 if k not in m2 or (k not in ('source', 'timestamp') and
                                                     repr(m0[k]) != repr(m2[k]))]
            if lost:
                diffs.append(('meta-differs', 'meta keys %s: original %r, copy %r' %
                              (lost, {k: m0[k] for k in lost}, {k: m2.get(k) for k in lost})))
            # one-directional: the framework's own dense expansion, from the copy (its color arrays are caches
            # that have to be rebuilt for the copy)
            if how in ('file', 'file-twice', 'copy') and (fwd2 is None) != (rev2 is None):
                direction, dat = ('fwd', fwd2) if fwd2 is not None else ('rev', rev2)
                if direction == 'fwd':
                    comp = np.zeros((nr, len(dat[0])))
                    for k, cols in enumerate(dat[0]):
                        comp[:, k] = A[:, cols].sum(axis=1)
                else:
                    comp = np.zeros((len(dat[0]), nc))
                    for k, rows in enumerate(dat[0]):
                        comp[k, :] = A[rows, :].sum(axis=0)
                full = np.asarray(c2._expand_jac(comp, direction).toarray())
                acc.count('obs:expand_jac-of-copy')
                if np.any(np.abs(full - A) > tolr):
                    diffs.append(('expand_jac-mismatch', '_expand_jac(%s) of the copy differs from the matrix' %
                                  direction))
        except Exception as e:
            diffs.append(('summary-raises:%s' % type(e).__name__, str(e)[:200]))
        wrong = np.abs(Jr2 - A) > tolr
        if np.any(wrong):
            k = np.unravel_index(np.argmax(np.abs(Jr2 - A)), A.shape)
            diffs.append(('reconstruction-mismatch', 'matrix rebuilt from the copy: entry %s is %r, true %r, %d entries '
                          'wrong' % (tuple(int(v) for v in k), Jr2[k], A[k], int(wrong.sum()))))
        if diffs:
            viol('%s:%s' % (where, diffs[0][0]), ('; '.join(t for _, t in diffs) + '; pattern %s' %
                                                  P.astype(int).tolist())[:1500])


def post_reconstructs(J, mode, direct, result):
    """icontract post-condition of _compute_coloring: record-and-continue."""
    acc = _state['acc']
    if acc is None:
        return True
    try:
        P = _pattern_of(J)
        if _state['depth'] > 1:
            acc.count('contract:recursive-fallback')
        ctx = _state['ctx']
        case = {'kind': 'contract', 'shape': list(P.shape), 'pattern': P.astype(int).tolist(), 'mode': mode,
                'direct': bool(direct)}
        if ctx is not None:
            case['from'] = ctx
        judge_coloring(P, mode, direct, result, acc, case)
    except Exception as e:          # the monitor itself must never change the behaviour of the code under test
        acc.count('contract:monitor-error:%s' % type(e).__name__)
        acc.viol('monitor-error:%s' % type(e).__name__, str(e)[:300], {'kind': 'monitor-error'})
    return True


def install(acc):
    _state['acc'] = acc
    if _state['installed']:
        return
    import icontract
    import openmdao.utils.coloring as cm
    import openmdao.core.system as sysmod
    import openmdao.components.exec_comp as ecmod
    orig = cm._compute_coloring
    contracted = icontract.ensure(post_reconstructs, error=ContractBroken)(orig)

    def _compute_coloring(J, mode, direct=True):
        _state['depth'] += 1
        try:
            if _state['depth'] == 1:
                return contracted(J, mode, direct)
            # icontract suspends checking while a call of the same function is in progress (its re-entrancy
            # guard), so the recursive fwd/rev fallback calls of mode='auto' get the same named post-condition
            # applied by hand
            result = orig(J, mode, direct)
            post_reconstructs(J, mode, direct, result)
            return result
        finally:
            _state['depth'] -= 1
    _compute_coloring.__wrapped__ = orig
    cm._compute_coloring = _compute_coloring
    # aliases bound with `from ... import _compute_coloring` before decoration
    for mod in (sysmod, ecmod):
        if getattr(mod, '_compute_coloring', None) is orig:
            mod._compute_coloring = _compute_coloring
    # evidence hooks for the framework layer
    from openmdao.core.total_jac import _TotalJacInfo
    from openmdao.approximation_schemes.approximation_scheme import ApproximationScheme
    o1 = _TotalJacInfo.simul_coloring_jac_setter

    def jac_setter(self, inds, mode, meta):
        _state['acc'].count('hook:simul_coloring_jac_setter')
        return o1(self, inds, mode, meta)
    _TotalJacInfo.simul_coloring_jac_setter = jac_setter
    o2 = ApproximationScheme._colored_column_iter

    def colored_iter(self, system, colored_approx_groups):
        _state['acc'].count('hook:_colored_column_iter')
        return o2(self, system, colored_approx_groups)
    ApproximationScheme._colored_column_iter = colored_iter
    o3 = cm.Coloring._apply_subtractions

    def apply_subs(self, J):
        _state['acc'].count('hook:_apply_subtractions')
        return o3(self, J)
    cm.Coloring._apply_subtractions = apply_subs
    _state['installed'] = True


def call_contracted(P, mode, direct, acc):
    import openmdao.utils.coloring as cm
    before = acc.counters.get('contract:evaluations', 0)
    try:
        cm._compute_coloring(P.copy(), mode, direct=direct)
    except Exception as e:
        tag = mode if mode != 'auto' else ('auto-direct' if direct else 'auto-substitution')
        acc.viol('contract:%s:raises:%s' % (tag, type(e).__name__), str(e)[:300],
                 {'kind': 'contract', 'shape': list(P.shape), 'pattern': P.astype(int).tolist(), 'mode': mode,
                  'direct': bool(direct)})
        return
    if acc.counters.get('contract:evaluations', 0) == before:
        # a reference bound before decoration bypassed the contract: the run must not count as evidence
        acc.count('contract:bypassed')


COMBOS = [('fwd', True), ('rev', True), ('auto', True), ('auto', False)]


def pattern_from_bits(bits, shape):
    r, c = shape
    return np.array([(bits >> k) & 1 for k in range(r * c)], dtype=bool).reshape(r, c)


def structured_pattern(rng, n, m, kind):
    P = np.zeros((n, m), dtype=bool)
    d = min(n, m)
    if kind == 'arrow':
        P[np.arange(d), np.arange(d)] = True
        P[0, :] = True
        P[:, 0] = True
    elif kind == 'blockdiag+dense':
        bs = rng.choice([2, 3, 4])
        for s in range(0, d, bs):
            P[s:s + bs, s:s + bs] = True
        for _ in range(rng.choice([1, 1, 2])):
            if rng.random() < 0.5:
                P[rng.randrange(n), :] = True
            else:
                P[:, rng.randrange(m)] = True
    elif kind == 'banded':
        bw = rng.choice([1, 2, 3])
        for i in range(n):
            for j in range(max(0, i - bw), min(m, i + bw + 1)):
                P[i, j] = True
    elif kind == 'eisenstat':
        # Eisenstat-style: diagonal blocks plus a dense border block on both sides
        k = max(1, d // 3)
        P[np.arange(d), np.arange(d)] = True
        P[:k, :] = True
        P[:, :k] = True
        P[d - k:, d - k:] = True
    else:
        dens = rng.choice([0.05, 0.1, 0.2, 0.4])
        P = np.array([[rng.random() < dens for _ in range(m)] for _ in range(n)], dtype=bool)
    return P


# ----------------------------------------------------------------------------------------------
# (b) framework layer
# ----------------------------------------------------------------------------------------------
def gen_fw_case(rng, idx, layer):
    n1, n2 = rng.choice([1, 2, 3, 4]), rng.choice([1, 2, 3, 4])
    m1, m2 = rng.choice([1, 2, 3, 4]), rng.choice([1, 2, 3, 4])
    n, m = n1 + n2, m1 + m2
    kind = rng.choice(['arrow', 'blockdiag+dense', 'banded', 'eisenstat', 'random', 'random'])
    P = structured_pattern(rng, m, n, kind)
    if kind == 'random':
        P = np.array([[rng.random() < rng.choice([0.25, 0.5]) for _ in range(n)] for _ in range(m)], dtype=bool)
    # every row/column of each variable needs at least one nonzero somewhere so that responses depend on desvars
    for i in range(m):
        if not P[i].any():
            P[i, rng.randrange(n)] = True
    for j in range(n):
        if not P[:, j].any():
            P[rng.randrange(m), j] = True
    A = [[round(rng.uniform(1, 2), 4) if P[i, j] else 0.0 for j in range(n)] for i in range(m)]
    case = {'kind': layer, 'idx': idx, 'sizes': [n1, n2, m1, m2], 'pkind': kind, 'A': A,
            'g': rng.choice(['lin', 'sq']), 'x0': [round(rng.uniform(0.5, 1.5), 4) for _ in range(n)]}
    if layer == 'total':
        case['mode'] = rng.choice(['fwd', 'rev', 'auto', 'auto'])
        case['direct'] = rng.random() < 0.5
        if kind in ('arrow', 'eisenstat') and rng.random() < 0.7:
            case['mode'], case['direct'] = 'auto', False       # where substitution lists actually arise
        case['scaling'] = None
        if rng.random() < 0.5:
            case['scaling'] = {'dv': [[round(rng.uniform(0.2, 5), 3) for _ in range(k)] for k in (n1, n2)],
                               'con': [[round(rng.uniform(0.2, 5), 3) for _ in range(k)] for k in (m1, m2)]}
        case['driver_scaling'] = bool(case['scaling']) and rng.random() < 0.8
    else:
        case['method'] = rng.choice(['cs', 'cs', 'fd'])
    return case


def build_fw(case, colored):
    import openmdao.api as om
    n1, n2, m1, m2 = case['sizes']
    n, m = n1 + n2, m1 + m2
    A = np.array(case['A']).reshape(m, n)
    P = A != 0
    xs = {'x1': slice(0, n1), 'x2': slice(n1, n)}
    ys = {'y1': slice(0, m1), 'y2': slice(m1, m)}
    gname = case['g']
    approx = case['kind'] == 'partial'

    def g(x):
        return x if gname == 'lin' else x * x

    def gp(x):
        return np.ones_like(x) if gname == 'lin' else 2 * x

    class Pat(om.ExplicitComponent):
        def setup(self):
            self.add_input('x1', np.ones(n1))
            self.add_input('x2', np.ones(n2))
            self.add_output('y1', np.ones(m1))
            self.add_output('y2', np.ones(m2))
            if approx:
                self.declare_partials('*', '*', method=case['method'])
                if colored:
                    self.declare_coloring(wrt='*', method=case['method'], min_improve_pct=0., num_full_jacs=2,
                                          show_summary=False, show_sparsity=False)
            else:
                for yn, ysl in ys.items():
                    for xn, xsl in xs.items():
                        rows, cols = np.nonzero(P[ysl, xsl])
                        if rows.size:
                            self.declare_partials(yn, xn, rows=rows, cols=cols)

        def compute(self, inputs, outputs):
            x = np.concatenate([inputs['x1'], inputs['x2']])
            y = A.dot(g(x))
            outputs['y1'] = y[ys['y1']]
            outputs['y2'] = y[ys['y2']]

        def compute_partials(self, inputs, partials):
            if approx:
                return
            x = np.concatenate([inputs['x1'], inputs['x2']]).real
            Jf = A * gp(x)[None, :]
            for yn, ysl in ys.items():
                for xn, xsl in xs.items():
                    blk = Jf[ysl, xsl]
                    rows, cols = np.nonzero(P[ysl, xsl])
                    if rows.size:
                        partials[yn, xn] = blk[rows, cols]

    p = om.Problem()
    mdl = p.model
    ivc = mdl.add_subsystem('ivc', om.IndepVarComp())
    x0 = np.array(case['x0'], dtype=float)
    ivc.add_output('x1', x0[:n1])
    ivc.add_output('x2', x0[n1:])
    mdl.add_subsystem('c', Pat())
    mdl.connect('ivc.x1', 'c.x1')
    mdl.connect('ivc.x2', 'c.x2')
    sc = case.get('scaling')
    mdl.add_design_var('ivc.x1', scaler=np.array(sc['dv'][0]) if sc else None)
    mdl.add_design_var('ivc.x2', scaler=np.array(sc['dv'][1]) if sc else None)
    mdl.add_constraint('c.y1', upper=1e3, scaler=np.array(sc['con'][0]) if sc else None)
    mdl.add_constraint('c.y2', upper=1e3, scaler=np.array(sc['con'][1]) if sc else None)
    if colored and not approx:
        p.driver.declare_coloring(direct=case['direct'], min_improve_pct=0., num_full_jacs=2, show_summary=False,
                                  show_sparsity=False)
    p.setup(mode=case.get('mode', 'auto'), force_alloc_complex=True)
    p.run_model()
    return p, A, gp


def run_fw_case(case, acc):
    install(acc)
    layer = case['kind']
    n1, n2, m1, m2 = case['sizes']
    ds = bool(case.get('driver_scaling'))
    _state['ctx'] = layer
    p = p0 = None
    try:
        try:
            p, A, gp = build_fw(case, True)
            setter0 = acc.counters.get('hook:simul_coloring_jac_setter', 0)
            citer0 = acc.counters.get('hook:_colored_column_iter', 0)
            subs0 = acc.counters.get('hook:_apply_subtractions', 0)
            Jc = p.compute_totals(return_format='array', driver_scaling=ds)
            used_total = acc.counters.get('hook:simul_coloring_jac_setter', 0) > setter0
            used_partial = acc.counters.get('hook:_colored_column_iter', 0) > citer0
            used_subs = acc.counters.get('hook:_apply_subtractions', 0) > subs0
            p0, _, _ = build_fw(case, False)
            Ju = p0.compute_totals(return_format='array', driver_scaling=ds)
        except Exception as e:
            acc.viol('%s:raises:%s' % (layer, type(e).__name__), str(e)[:300], case)
            return
        x0 = np.array(case['x0'], dtype=float)
        Jx = A * gp(x0)[None, :]
        nonuniform = False
        if ds and case.get('scaling'):
            sdv = np.concatenate([np.array(v, dtype=float) for v in case['scaling']['dv']])
            scon = np.concatenate([np.array(v, dtype=float) for v in case['scaling']['con']])
            Jx = Jx * scon[:, None] / sdv[None, :]
            nonuniform = True
        scale = max(np.abs(Jx).max(), 1e-300)
        if layer == 'total':
            acc.count('obs:total-colored-vs-uncolored')
            acc.count('cell:total/%s' % case['mode'])
            if not case['direct']:
                acc.count('cell:total/substitution')
            if ds:
                acc.count('cell:total/scaled')
            tol = 1e-12 * scale
            used = used_total
            modetag = '%s:%s' % (case['mode'], 'direct' if case['direct'] else 'substitution')
        else:
            acc.count('obs:partial-colored-vs-uncolored')
            acc.count('cell:partial/%s' % case['method'])
            if case['method'] == 'cs':
                tol = 1e-11 * scale
            else:
                # forward difference, step 1e-6: truncation <= |A| * h for g=x^2 (g''=2), round-off 16 eps |f| / h
                fmax = np.abs(A).sum(axis=1).max() * 2.25
                tol = np.abs(A).max() * 1e-6 * 1.01 + 32 * np.finfo(float).eps * fmax / 1e-6
            used = used_partial
            modetag = case['method']
        bad = False
        if Jc.shape != Jx.shape or Ju.shape != Jx.shape:
            acc.viol('%s:%s:shape' % (layer, modetag), 'colored %s uncolored %s expected %s' %
                     (Jc.shape, Ju.shape, Jx.shape), case)
            return
        if np.any(np.abs(Ju - Jx) > tol):
            acc.skip('uncolored-differs-from-closed-form(not C03)')
            return
        d_cu = np.abs(Jc - Ju).max()
        d_cx = np.abs(Jc - Jx).max()
        if d_cu > (tol if layer == 'total' or case['method'] == 'cs' else 2 * tol) or d_cx > tol:
            k = np.unravel_index(np.argmax(np.abs(Jc - Jx)), Jx.shape)
            if layer == 'total' and used_subs and nonuniform:
                key = 'total:substitution-subtractions-applied-after-scaling:colored-differs-from-uncolored'
            else:
                key = '%s:%s:colored-differs-from-uncolored' % (layer, modetag)
            acc.viol(key, 'max|colored-uncolored|=%.3g, entry %s colored %r exact %r (driver_scaling=%s, '
                     'subtractions used=%s)' % (d_cu, tuple(int(v) for v in k), Jc[k], Jx[k], ds, used_subs), case)
            bad = True
        if not bad:
            if not used:
                acc.skip('coloring-not-used')
                return
            acc.ok(fingerprint([layer, case['sizes'], case['pkind'], (np.array(case['A']) != 0).astype(int).tolist(),
                                modetag, bool(case.get('scaling')), ds, case['g']]), nontrivial=True,
                   sample=case if case['idx'] % 37 == 0 else None)
    finally:
        _state['ctx'] = None
        for q in (p, p0):
            try:
                if q is not None:
                    q.cleanup()
            except Exception:
                pass


def run_execcomp_case(case, acc):
    import openmdao.api as om
    install(acc)
    n = case['n']
    x0 = np.array(case['x0'], dtype=float)
    exprs = case['exprs']
    _state['ctx'] = 'execcomp'
    res = {}
    ps = []
    try:
        for colored in (True, False):
            try:
                p = om.Problem()
                ps.append(p)
                p.model.add_subsystem('ivc', om.IndepVarComp('a', x0), promotes=['*'])
                p.model.add_subsystem('ivc2', om.IndepVarComp('b', x0[::-1].copy()), promotes=['*'])
                kw = {nm: {'shape': (n,)} for nm in ('a', 'b', 'y', 'z')}
                p.model.add_subsystem('e', om.ExecComp(exprs, do_coloring=colored, **kw), promotes=['*'])
                p.setup(force_alloc_complex=True)
                p.run_model()
                before = acc.counters.get('contract:evaluations', 0)
                res[colored] = p.compute_totals(of=['y', 'z'], wrt=['a', 'b'], return_format='array')
                if colored and (acc.counters.get('contract:evaluations', 0) > before or
                                p.model.e._coloring_info.coloring is not None):
                    acc.count('obs:execcomp-colored')
            except Exception as e:
                acc.viol('execcomp:raises:%s' % type(e).__name__, str(e)[:300], case)
                return
        # closed form for the fixed expression families
        a, b = x0, x0[::-1]
        Z = np.zeros((n, n))
        fam = case['family']
        if fam == 0:      # y = 3*a + b**2 ; z = a*b
            Jx = np.block([[3 * np.eye(n), np.diag(2 * b)], [np.diag(b), np.diag(a)]])
        elif fam == 1:    # y = sin(a) ; z = 2*b
            Jx = np.block([[np.diag(np.cos(a)), Z], [Z, 2 * np.eye(n)]])
        else:             # y = a*sum(b) ; z = b
            Jx = np.block([[b.sum() * np.eye(n), np.outer(a, np.ones(n))], [Z, np.eye(n)]])
        tol = 1e-11 * np.abs(Jx).max()
        if np.any(np.abs(res[False] - Jx) > tol):
            acc.skip('uncolored-differs-from-closed-form(not C03)')
            return
        if np.any(np.abs(res[True] - res[False]) > tol) or np.any(np.abs(res[True] - Jx) > tol):
            acc.viol('execcomp:colored-differs-from-uncolored', 'max diff %.3g' %
                     np.abs(res[True] - res[False]).max(), case)
            return
        acc.ok(fingerprint(['execcomp', n, fam]), sample=None)
    finally:
        _state['ctx'] = None
        for q in ps:
            try:
                q.cleanup()
            except Exception:
                pass


# ----------------------------------------------------------------------------------------------
# (b2) framework layer, call-shape dimension and partial colorings restricted to some inputs
# ----------------------------------------------------------------------------------------------
def _varblock_pattern(rng, osz, isz):
    """Sparsity with structure at the variable level: every (output var, input var) block is empty,
    diagonal-like, dense or random - permuting or dropping variables then really changes the layout."""
    m, n = sum(osz), sum(isz)
    P = np.zeros((m, n), dtype=bool)
    r0 = 0
    for a in osz:
        c0 = 0
        for b in isz:
            k = rng.choice(['zero', 'zero', 'diag', 'diag', 'dense', 'random'])
            if k == 'diag':
                for i in range(max(a, b)):
                    P[r0 + i % a, c0 + i % b] = True
            elif k == 'dense':
                P[r0:r0 + a, c0:c0 + b] = True
            elif k == 'random':
                for i in range(a):
                    for j in range(b):
                        P[r0 + i, c0 + j] = rng.random() < 0.5
            c0 += b
        r0 += a
    return P


def _pick_list(rng, kind, driver_names, src_names, allow_src=True):
    """The `of` / `wrt` argument of one call; None = argument not passed."""
    n = len(driver_names)
    if kind == 'none':
        return None
    if kind == 'driver' or (kind == 'src' and not allow_src):
        return list(driver_names)
    if kind == 'src':
        return list(src_names)
    names = [rng.choice(pair) for pair in zip(driver_names, src_names)] if allow_src and rng.random() < 0.3 \
        else list(driver_names)
    if kind == 'perm':
        idx = list(range(n))
        while idx == list(range(n)):
            rng.shuffle(idx)
        return [names[i] for i in idx]
    keep = sorted(rng.sample(range(n), rng.randrange(1, n)))
    if kind == 'subperm' and len(keep) > 1:
        keep = keep[::-1] if len(keep) == 2 else rng.sample(keep, len(keep))
    return [names[i] for i in keep]


CUSTOM = ['perm', 'subset', 'subperm']


def gen_calls_case(rng, idx):
    ni, no = rng.choice([2, 3, 3, 4]), rng.choice([2, 3, 3])
    isz = [rng.choice([1, 2, 3]) for _ in range(ni)]
    osz = [rng.choice([1, 1, 2, 3]) for _ in range(no)]
    m, n = sum(osz), sum(isz)
    kind = rng.choice(['varblock', 'varblock', 'varblock', 'banded', 'arrow', 'random'])
    P = _varblock_pattern(rng, osz, isz) if kind == 'varblock' else structured_pattern(rng, m, n, kind)
    for i in range(m):
        if not P[i].any():
            P[i, rng.randrange(n)] = True
    for j in range(n):
        if not P[:, j].any():
            P[rng.randrange(m), j] = True
    A = [[round(rng.uniform(1, 2), 4) if P[i, j] else 0.0 for j in range(n)] for i in range(m)]
    case = {'kind': 'calls', 'idx': idx, 'isz': isz, 'osz': osz, 'pkind': kind, 'A': A,
            'g': rng.choice(['lin', 'sq']), 'x0': [round(rng.uniform(0.5, 1.5), 4) for _ in range(n)],
            'mode': rng.choice(['fwd', 'rev', 'auto']), 'direct': rng.random() < 0.6,
            'promote': rng.random() < 0.6, 'colsrc': rng.choice(['dynamic', 'dynamic', 'fixed-object', 'fixed-file'])}
    case['driver'] = 'scipy' if case['colsrc'] != 'dynamic' or rng.random() < 0.5 else 'base'
    ones = [k for k, sz in enumerate(osz) if sz == 1]
    case['obj'] = rng.choice(ones) if ones and rng.random() < 0.6 else None
    case['scaling'] = None
    if rng.random() < 0.4:
        case['scaling'] = {'dv': [[round(rng.uniform(0.2, 5), 3) for _ in range(k)] for k in isz],
                           'con': [[round(rng.uniform(0.2, 5), 3) for _ in range(k)] for k in osz]}
    # desvar / constraint indices: the driver's jacobian then has fewer columns / rows than the variables
    case['didx'] = [sorted(rng.sample(range(sz), rng.randrange(1, sz))) if sz > 1 and rng.random() < 0.2 else None
                    for sz in isz]
    case['cidx'] = [sorted(rng.sample(range(sz), rng.randrange(1, sz))) if sz > 1 and rng.random() < 0.2 else None
                    for sz in osz]
    dvs, dv_src, resps, resp_src = _h_names(case)
    pr = case['promote']

    def call(ofk, wrtk, api='compute_totals'):
        c = {'api': api, 'fmt': rng.choice(['array', 'array', 'dict', 'flat_dict']) if api == 'compute_totals' else None,
             'ds': bool(case['scaling']) and rng.random() < 0.5,
             'ci': False if (api == 'compute_totals' and rng.random() < 0.1) else None}
        # what a source name means for driver scaling / response indices is not C03's business: a response that
        # is referred to by its source name gets neither, so source names are used only where that is immaterial
        src_ok = pr and not c['ds']
        of_src_ok = src_ok and not any(case['cidx'])
        if ofk == 'src' and not of_src_ok:
            ofk = 'driver'
        if wrtk == 'src' and not src_ok:
            wrtk = 'driver'
        c.update({'of': _pick_list(rng, ofk, resps, resp_src, of_src_ok),
                  'wrt': _pick_list(rng, wrtk, dvs, dv_src, src_ok), 'ofk': ofk, 'wrtk': wrtk})
        if ofk == 'perm' and case['obj'] and rng.random() < 0.5:
            # the responses in the order they were declared (the objective after a constraint), by source name
            decl = sorted(range(len(resps)), key=lambda a: resp_src[a])
            c['of'] = [resp_src[a] if of_src_ok or not pr else resps[a] for a in decl]
        if c['of'] is not None and case['obj'] and len(c['of']) == len(resps) and \
                [resp_src[resps.index(nm)] if nm in resps else nm for nm in c['of']] == sorted(resp_src):
            c['ofk'] = 'declaration-order'
        return c
    one_sided = call('none', rng.choice(CUSTOM)) if rng.random() < 0.5 else call(rng.choice(CUSTOM), 'none')
    drv_order = call(*rng.choice([('none', 'none'), ('none', 'none'), ('driver', 'driver'), ('src', 'src'),
                                  ('none', 'driver'), ('src', 'none')]))
    drv_order['ci'] = None
    both = call(rng.choice(CUSTOM + ['driver']), rng.choice(CUSTOM))
    special = call(rng.choice(['none', 'driver'] + CUSTOM), rng.choice(['none', 'driver'] + CUSTOM), api='check_totals') \
        if rng.random() < 0.5 else {'api': 'driver', 'of': None, 'wrt': None, 'ofk': 'none', 'wrtk': 'none',
                                    'fmt': 'array', 'ds': True, 'ci': None}
    other = call(rng.choice(['none', 'src'] + CUSTOM), rng.choice(['none', 'src'] + CUSTOM))
    r = rng.random()
    if r < 0.35:            # a one-sided custom call BEFORE the coloring exists, then what every driver does
        rest = [both, special, other]
        rng.shuffle(rest)
        seq = [one_sided, drv_order] + rest
    elif r < 0.55:
        rest = [one_sided, both, special, other]
        rng.shuffle(rest)
        seq = [drv_order] + rest
    else:
        seq = [one_sided, drv_order, both, special, other]
        rng.shuffle(seq)
    if case['colsrc'] == 'dynamic' and rng.random() < 0.3:
        # a caller-supplied coloring_info (copy of the driver's, dynamic, no coloring yet) for caller-supplied lists,
        # then what every driver does.  Always at the end so that the state it leaves behind touches one call only.
        own = call(rng.choice(CUSTOM), rng.choice(CUSTOM))
        own['ci'] = 'own-dynamic'
        last = call('none', 'none')
        last['ci'] = None
        seq = seq + [own, last]
    case['calls'] = seq
    return case


def _h_names(case):
    ni, no = len(case['isz']), len(case['osz'])
    pr = case.get('promote')
    dv_src = ['ivc.x%d' % (k + 1) for k in range(ni)]
    dvs = ['x%d' % (k + 1) for k in range(ni)] if pr else list(dv_src)
    order = list(range(no))
    if case.get('obj') is not None:         # objectives come first in the driver's response order
        order.remove(case['obj'])
        order.insert(0, case['obj'])
    resp_src = ['c.y%d' % (k + 1) for k in order]
    resps = ['y%d' % (k + 1) for k in order] if pr else list(resp_src)
    return dvs, dv_src, resps, resp_src


def _wrt_matched(case):
    """Inputs (relative names) a component-level declare_coloring(wrt=case['pwrt']) selects; None = no partial
    coloring requested."""
    import fnmatch
    if case.get('pwrt') is None:
        return None
    names = ['x%d' % (k + 1) for k in range(len(case['isz']))]
    if case.get('implicit'):            # the columns of an implicit component's jacobian are outputs, then inputs
        names = ['y%d' % (k + 1) for k in range(len(case['osz']))] + names
    return [nm for nm in names if any(fnmatch.fnmatchcase(nm, pat) for pat in case['pwrt'])]


def build_h(case, tot=None, par=None, name=None):
    """Harness y = A g(x) with any number of input/output variables.
    tot: None | 'dynamic' | 'std' (use_fixed_coloring() - the standard file of the problem's coloring directory) |
         Coloring | filename (driver total coloring)
    par: None | 'dynamic' | 'std' | Coloring | filename (component coloring over the inputs matched by case['pwrt'])
    name: problem name (= name of its output directory, where its coloring files are written to / read from)"""
    import openmdao.api as om
    isz, osz = case['isz'], case['osz']
    n, m = sum(isz), sum(osz)
    A = np.array(case['A']).reshape(m, n)
    P = A != 0
    ioff, ooff = np.cumsum([0] + isz), np.cumsum([0] + osz)
    xs = {'x%d' % (k + 1): slice(int(ioff[k]), int(ioff[k + 1])) for k in range(len(isz))}
    ys = {'y%d' % (k + 1): slice(int(ooff[k]), int(ooff[k + 1])) for k in range(len(osz))}
    gname = case['g']
    matched = _wrt_matched(case)
    method = case.get('method', 'cs')
    other = case.get('other', 'analytic-sparse')
    approx_in = (set(xs) if other == 'approx' else set()) | set(matched or ())
    if case.get('implicit') and other == 'approx' and case.get('approx_outputs'):
        approx_in |= set(ys)
    # declare_coloring alone implies approximated partials for the columns it matches
    implied = set(matched or ()) if case.get('implied') and par is not None else set()
    by_block = bool(case.get('by_block'))

    def g(x):
        return x if gname == 'lin' else x * x

    def gp(x):
        return np.ones_like(x) if gname == 'lin' else 2 * x

    implicit = bool(case.get('implicit'))

    class PatN(om.ImplicitComponent if implicit else om.ExplicitComponent):
        def setup(self):
            for xn, sl in xs.items():
                self.add_input(xn, np.ones(sl.stop - sl.start))
            for yn, sl in ys.items():
                self.add_output(yn, np.ones(sl.stop - sl.start))
            if implicit:            # R_y = y - A g(x): dR/dy = I, dR/dx = -A g'(x)
                for yn, sl in ys.items():
                    if yn in implied:
                        continue
                    if yn in approx_in:
                        self.declare_partials(yn, yn, method=method)
                    else:
                        ar = np.arange(sl.stop - sl.start)
                        self.declare_partials(yn, yn, rows=ar, cols=ar, val=1.0)
            for xn, xsl in xs.items():
                if xn in implied:
                    continue
                if xn in approx_in:
                    if by_block:
                        for yn, ysl in ys.items():
                            if P[ysl, xsl].any():
                                self.declare_partials(yn, xn, method=method)
                    else:
                        self.declare_partials('*', xn, method=method)
                elif other == 'analytic-dense':
                    self.declare_partials('*', xn)
                else:
                    for yn, ysl in ys.items():
                        rows, cols = np.nonzero(P[ysl, xsl])
                        if rows.size:
                            self.declare_partials(yn, xn, rows=rows, cols=cols)
            if par is not None:
                self.declare_coloring(wrt=case['pwrt'], method=method, min_improve_pct=0., num_full_jacs=2,
                                      show_summary=False, show_sparsity=False)
                if par == 'std':
                    self.use_fixed_coloring(recurse=False)
                elif par != 'dynamic':
                    self.use_fixed_coloring(par, recurse=False)

        def compute(self, inputs, outputs):
            x = np.concatenate([inputs[xn] for xn in xs])
            y = A.dot(g(x))
            for yn, sl in ys.items():
                outputs[yn] = y[sl]

        def solve_nonlinear(self, inputs, outputs):
            self.compute(inputs, outputs)

        def apply_nonlinear(self, inputs, outputs, residuals):
            x = np.concatenate([inputs[xn] for xn in xs])
            y = A.dot(g(x))
            for yn, sl in ys.items():
                residuals[yn] = outputs[yn] - y[sl]

        def linearize(self, inputs, outputs, partials):
            self.compute_partials(inputs, partials, sign=-1.0)

        def compute_partials(self, inputs, partials, sign=1.0):
            x = np.concatenate([inputs[xn] for xn in xs]).real
            Jf = sign * A * gp(x)[None, :]
            for xn, xsl in xs.items():
                if xn in approx_in:
                    continue
                for yn, ysl in ys.items():
                    blk = Jf[ysl, xsl]
                    if other == 'analytic-dense':
                        partials[yn, xn] = blk
                    else:
                        rows, cols = np.nonzero(P[ysl, xsl])
                        if rows.size:
                            partials[yn, xn] = blk[rows, cols]

    p = om.Problem(name=name) if name else om.Problem()
    mdl = p.model
    pr = ['*'] if case.get('promote') else None
    ivc = mdl.add_subsystem('ivc', om.IndepVarComp(), promotes=pr)
    x0 = np.array(case['x0'], dtype=float)
    for xn, sl in xs.items():
        ivc.add_output(xn, x0[sl])
    mdl.add_subsystem('c', PatN(), promotes=pr)
    if not pr:
        for xn in xs:
            mdl.connect('ivc.' + xn, 'c.' + xn)
    if implicit:
        mdl.linear_solver = om.DirectSolver(assemble_jac=bool(case.get('assemble_jac')))
    sc = case.get('scaling')
    dvs, _, resps, _ = _h_names(case)
    didx = case.get('didx') or [None] * len(isz)
    cidx = case.get('cidx') or [None] * len(osz)

    def sub(v, idx):
        v = np.array(v, dtype=float)
        return v if idx is None else v[idx]
    for k, nm in enumerate(dvs):
        mdl.add_design_var(nm, indices=didx[k], scaler=sub(sc['dv'][k], didx[k]) if sc else None)
    for k in range(len(osz)):
        nm = ('y%d' if pr else 'c.y%d') % (k + 1)
        if case.get('obj') == k:
            mdl.add_objective(nm, scaler=float(sc['con'][k][0]) if sc else None)
        else:
            mdl.add_constraint(nm, upper=1e3, indices=cidx[k], scaler=sub(sc['con'][k], cidx[k]) if sc else None)
    if case.get('driver') == 'scipy':
        p.driver = om.ScipyOptimizeDriver(optimizer='SLSQP', disp=False)
    if tot == 'dynamic':
        p.driver.declare_coloring(direct=case.get('direct', True), min_improve_pct=0., num_full_jacs=2,
                                  show_summary=False, show_sparsity=False)
    elif tot is not None:
        if tot == 'std':
            p.driver.use_fixed_coloring()
        else:
            p.driver.use_fixed_coloring(tot)
        # options only (the static coloring stays): a coloring without improvement is used as well
        p.driver.declare_coloring(direct=case.get('direct', True), min_improve_pct=0., show_summary=False,
                                  show_sparsity=False)
    import contextlib
    import io
    with contextlib.redirect_stdout(io.StringIO()):        # 'loading coloring from file ...'
        p.setup(mode=case.get('mode', 'auto'), force_alloc_complex=True)
        p.run_model()
    return p


def closed_form_h(case, ds):
    """Full total jacobian in driver order, as {(response index in driver order, dv index): block}."""
    isz, osz = case['isz'], case['osz']
    n, m = sum(isz), sum(osz)
    A = np.array(case['A']).reshape(m, n)
    x0 = np.array(case['x0'], dtype=float)
    Jx = A * (np.ones_like(x0) if case['g'] == 'lin' else 2 * x0)[None, :]
    if ds and case.get('scaling'):
        sdv = np.concatenate([np.array(v, dtype=float) for v in case['scaling']['dv']])
        scon = np.concatenate([np.array(v, dtype=float) for v in case['scaling']['con']])
        Jx = Jx * scon[:, None] / sdv[None, :]
    ioff, ooff = np.cumsum([0] + isz), np.cumsum([0] + osz)
    order = list(range(len(osz)))
    if case.get('obj') is not None:
        order.remove(case['obj'])
        order.insert(0, case['obj'])
    didx = case.get('didx') or [None] * len(isz)
    cidx = case.get('cidx') or [None] * len(osz)
    out = {}
    for a, k in enumerate(order):
        for b in range(len(isz)):
            blk = Jx[ooff[k]:ooff[k + 1], ioff[b]:ioff[b + 1]]
            if cidx[k] is not None:
                blk = blk[cidx[k], :]
            if didx[b] is not None:
                blk = blk[:, didx[b]]
            out[a, b] = blk
    return out


def _do_call(p, call, twin=False):
    """One call in the shape the case prescribes; returns {(of name, wrt name): block} or a 2-D array."""
    kw = {}
    if call['of'] is not None:
        kw['of'] = list(call['of'])
    if call['wrt'] is not None:
        kw['wrt'] = list(call['wrt'])
    if call['api'] == 'driver':
        return np.array(p.driver._compute_totals(return_format='array'))
    if call['api'] == 'check_totals':
        data = p.check_totals(out_stream=None, method='cs', driver_scaling=call['ds'], **kw)
        out = {}
        for key, d in data.items():
            J = d.get('J_fwd', d.get('J_rev'))
            out[key] = np.array(J)
        return out
    if call.get('ci') is False:
        kw['coloring_info'] = False
    elif call.get('ci') == 'own-dynamic' and not twin:
        ci = p.driver._coloring_info.copy()
        ci.coloring = None
        ci.dynamic = True
        kw['coloring_info'] = ci
    J = p.compute_totals(return_format=call['fmt'], driver_scaling=call['ds'], **kw)
    if call['fmt'] == 'array':
        return np.array(J)
    if call['fmt'] == 'dict':
        return {(o, w): np.array(v) for o, sub in J.items() for w, v in sub.items()}
    return {k: np.array(v) for k, v in J.items()}


def _expected(case, call, blocks):
    """Closed-form answer of a call: (dense matrix in the caller's order, {(of idx, wrt idx): block})."""
    dvs, dv_src, resps, resp_src = _h_names(case)
    ofs = [(resps.index(nm) if nm in resps else resp_src.index(nm)) for nm in (call['of'] or resps)]
    wrts = [(dvs.index(nm) if nm in dvs else dv_src.index(nm)) for nm in (call['wrt'] or dvs)]
    return np.block([[blocks[a, b] for b in wrts] for a in ofs]), ofs, wrts


def _compare(case, call, res, blocks, tol):
    """None if `res` equals the closed form, else a short description."""
    dvs, dv_src, resps, resp_src = _h_names(case)
    full, ofs, wrts = _expected(case, call, blocks)
    if isinstance(res, np.ndarray):
        if res.shape != full.shape:
            return 'shape %s, expected %s' % (res.shape, full.shape)
        d = np.abs(res - full)
        if np.any(d > tol) or not np.all(np.isfinite(res)):
            k = np.unravel_index(np.argmax(d), d.shape)
            return 'entry %s is %r, exact %r; %d of %d entries wrong' % (tuple(int(v) for v in k), res[k], full[k],
                                                                        int((d > tol).sum()), d.size)
        return None
    seen = set()
    for (o, w), blk in res.items():
        a = resps.index(o) if o in resps else (resp_src.index(o) if o in resp_src else None)
        b = dvs.index(w) if w in dvs else (dv_src.index(w) if w in dv_src else None)
        if a is None or b is None or a not in ofs or b not in wrts:
            return 'unexpected key (%s, %s)' % (o, w)
        seen.add((a, b))
        ex = blocks[a, b]
        blk = np.atleast_2d(blk)
        if blk.shape != ex.shape:
            return 'block (%s, %s) has shape %s, expected %s' % (o, w, blk.shape, ex.shape)
        if np.any(np.abs(blk - ex) > tol) or not np.all(np.isfinite(blk)):
            return 'block (%s, %s) is %s, exact %s' % (o, w, blk.tolist(), ex.tolist())
    missing = [(a, b) for a in ofs for b in wrts if (a, b) not in seen]
    if missing:
        return 'blocks %s missing from the result' % missing[:4]
    return None


def _is_driver_order(case, call):
    dvs, dv_src, resps, resp_src = _h_names(case)
    return (call['of'] is None or call['of'] in (resps, resp_src)) and \
        (call['wrt'] is None or call['wrt'] in (dvs, dv_src))


def run_calls_case(case, acc):
    """Sequence of compute_totals / check_totals / driver calls of different shapes on a problem whose driver has a
    total coloring and on its uncolored twin; every result must equal the closed form."""
    import tempfile
    import os
    install(acc)
    _state['ctx'] = 'calls'
    ps = []
    try:
        try:
            tot = 'dynamic'
            if case['colsrc'] != 'dynamic':
                pg = build_h(case, tot='dynamic')
                ps.append(pg)
                pg.compute_totals(return_format='array')
                tot = pg.driver._coloring_info.coloring
                if tot is None:
                    acc.skip('no-coloring-to-fix')
                    return
                if case['colsrc'] == 'fixed-file':
                    fn = os.path.join(tempfile.mkdtemp(prefix='c03col'), 'total_coloring.pkl')
                    tot.save(fn)
                    tot = fn
            p = build_h(case, tot=tot)
            ps.append(p)
            p0 = build_h(case, tot=None)
            ps.append(p0)
        except Exception as e:
            acc.viol('calls:build:raises:%s' % type(e).__name__, str(e)[:300], case)
            return
        bad = False
        used_any = False
        seen_driver_order = False
        seen_own_ci = False
        decl_order_first = False
        for k, call in enumerate(case['calls']):
            blocks = closed_form_h(case, call['ds'])
            tol = 1e-12 * max(max(np.abs(b).max() for b in blocks.values()), 1e-300)
            sided = 'none' if call['of'] is None and call['wrt'] is None else \
                ('wrt-only' if call['of'] is None else ('of-only' if call['wrt'] is None else 'both'))
            when = 'first-call' if k == 0 else ('after-driver-order-call' if seen_driver_order else
                                                'after-custom-calls-only')
            if _is_driver_order(case, call):
                # 'poisoned': the only earlier calls were custom ones, so whatever coloring is stored was made then
                sig = '%s:driver-order%s' % (sided, ':after-custom-calls-only' if when == 'after-custom-calls-only'
                                             else '')
            else:
                kinds = sorted({kk for kk in (call['ofk'], call['wrtk'])
                                if kk not in ('none', 'driver', 'src', 'declaration-order')})
                sig = '%s:%s' % (sided, '+'.join(kinds) or 'driver-order')
                if call['ofk'] == 'declaration-order':
                    # its own mechanism: the list equals the responses' source names in declaration order
                    sig = 'of-in-declaration-order:' + sig
            if decl_order_first and when == 'after-custom-calls-only' and _is_driver_order(case, call):
                # same mechanism seen one call later: the declaration-order call was taken for the driver's list
                # while no coloring existed yet, so the coloring stored for the driver was made for ITS row order
                sig = 'of-in-declaration-order:earlier-call-made-the-stored-coloring:' + sig
            if call.get('ci') == 'own-dynamic':
                sig += ':own-coloring_info'
                acc.count('cell:calls/own-dynamic-coloring_info')
            if seen_own_ci:
                sig = 'after-call-with-own-coloring_info:' + sig
                acc.count('cell:calls/after-call-with-own-coloring_info')
            try:
                r0 = _do_call(p0, call, twin=True)
                why0 = _compare(case, call, r0, blocks, tol)
            except Exception as e:
                why0 = 'raises %s: %s' % (type(e).__name__, str(e)[:120])
            if why0 is not None:
                acc.count('calls:uncolored-twin-differs-from-closed-form(not C03)')
                acc.count('calls:twin-issue:%s:%s' % (call['api'], why0.split(',')[0][:60]))
                if call['ofk'] == 'declaration-order' and not seen_driver_order:
                    decl_order_first = True
                if _is_driver_order(case, call):
                    seen_driver_order = True
                if call.get('ci') == 'own-dynamic':
                    seen_own_ci = True
                try:                       # keep both problems in the same state
                    _do_call(p, call)
                except Exception:
                    pass
                continue
            setter0 = acc.counters.get('hook:simul_coloring_jac_setter', 0)
            try:
                r = _do_call(p, call)
                why = _compare(case, call, r, blocks, tol)
                obs = 'colored-differs-from-uncolored'
            except Exception as e:
                why = '%s: %s' % (type(e).__name__, str(e)[:200])
                obs = 'raises:%s' % type(e).__name__
            used = acc.counters.get('hook:simul_coloring_jac_setter', 0) > setter0
            acc.count('obs:calls-colored-vs-uncolored')
            acc.count('cell:calls/%s' % sided)
            acc.count('cell:calls/api-%s' % call['api'])
            for kk in {call['ofk'], call['wrtk']}:
                acc.count('cell:calls/list-%s' % kk)
            if sided in ('wrt-only', 'of-only') and not _is_driver_order(case, call):
                acc.count('cell:calls/one-sided-custom')
                if not seen_driver_order:
                    acc.count('cell:calls/one-sided-custom-before-coloring-exists')
            if call.get('fmt'):
                acc.count('cell:calls/fmt-%s' % call['fmt'])
            if call['ds']:
                acc.count('cell:calls/driver-scaling')
            if call.get('ci') is False:
                acc.count('cell:calls/coloring_info-False')
            if used:
                used_any = True
                acc.count('obs:calls-coloring-used/%s' % ('driver-order' if _is_driver_order(case, call) else
                                                          'custom-lists'))
                if seen_driver_order is False and k > 0 and _is_driver_order(case, call):
                    acc.count('obs:calls-coloring-used-in-driver-order-call-after-custom-call')
            if why is not None:
                acc.viol('calls:%s:%s' % (sig, obs), 'call #%d (%s, %s coloring) %s(of=%s, wrt=%s, fmt=%s, '
                         'driver_scaling=%s, coloring_info=%s): %s (coloring used in this call: %s)' %
                         (k, when, case['colsrc'], call['api'], call['of'], call['wrt'], call.get('fmt'), call['ds'],
                          call.get('ci'), why, used), case)
                bad = True
                break           # later calls of the sequence run on a problem in an unknown state
            if call['ofk'] == 'declaration-order' and not seen_driver_order:
                decl_order_first = True
            if _is_driver_order(case, call):
                seen_driver_order = True
            if call.get('ci') == 'own-dynamic':
                seen_own_ci = True
        acc.count('cell:calls/%s' % case['colsrc'])
        acc.count('cell:calls/driver-%s' % case['driver'])
        if any(case['didx']) or any(case['cidx']):
            acc.count('cell:calls/desvar-or-constraint-indices')
        if case['obj'] is not None and case['obj'] > 0:
            acc.count('cell:calls/objective-declared-after-a-constraint')
        if not bad:
            if not used_any:
                acc.skip('coloring-not-used')
                return
            acc.ok(fingerprint(['calls', case['isz'], case['osz'], (np.array(case['A']) != 0).astype(int).tolist(),
                                case['mode'], case['direct'], case['colsrc'], case['obj'], case['promote'],
                                case['didx'], case['cidx'], [[c['api'], c['of'], c['wrt'], c.get('fmt'), c['ds'], c.get('ci')]
                                 for c in case['calls']]]),
                   nontrivial=True, sample=case if case['idx'] % 23 == 0 else None)
    finally:
        _state['ctx'] = None
        for q in ps:
            try:
                q.cleanup()
            except Exception:
                pass


def gen_psub_case(rng, idx):
    ni, no = rng.choice([2, 3, 3, 4]), rng.choice([1, 2, 2])
    isz = [rng.choice([1, 2, 3, 3]) for _ in range(ni)]
    osz = [rng.choice([1, 2, 3]) for _ in range(no)]
    m, n = sum(osz), sum(isz)
    kind = rng.choice(['varblock', 'varblock', 'banded', 'arrow', 'random'])
    P = _varblock_pattern(rng, osz, isz) if kind == 'varblock' else structured_pattern(rng, m, n, kind)
    for i in range(m):
        if not P[i].any():
            P[i, rng.randrange(n)] = True
    for j in range(n):
        if not P[:, j].any():
            P[rng.randrange(m), j] = True
    A = [[round(rng.uniform(1, 2), 4) if P[i, j] else 0.0 for j in range(n)] for i in range(m)]
    pos = rng.choice(['all', 'first', 'middle', 'last', 'several', 'glob'])
    if pos == 'middle' and ni < 3:
        pos = 'last'
    if pos in ('several', 'glob') and ni < 3:
        pos = 'first'
    if pos == 'all':
        pwrt = ['*']
    elif pos == 'first':
        pwrt = ['x1']
    elif pos == 'last':
        pwrt = ['x%d' % ni]
    elif pos == 'middle':
        pwrt = ['x%d' % rng.randrange(2, ni)]
    else:
        sub = rng.sample(range(1, ni + 1), rng.randrange(2, ni))       # a strict subset, any order
        pwrt = ['x%d' % k for k in sub] if pos == 'several' else ['x[%s]' % ''.join(str(k) for k in sorted(sub))]
    implicit = rng.random() < 0.3
    if implicit:
        r = rng.random()
        if r < 0.25:                      # an output column only / an output and an input
            pos, pwrt = 'output', ['y%d' % rng.randrange(1, no + 1)]
        elif r < 0.5:
            pos, pwrt = 'output+input', ['y%d' % rng.randrange(1, no + 1), 'x%d' % rng.randrange(1, ni + 1)]
        elif r < 0.6:
            pos, pwrt = 'all-outputs', ['y*']
        elif r < 0.7:
            pos, pwrt = 'all-inputs', ['x*']
    case = {'kind': 'partialsub', 'idx': idx, 'isz': isz, 'osz': osz, 'pkind': kind, 'A': A, 'implicit': implicit,
            'assemble_jac': rng.random() < 0.5, 'approx_outputs': rng.random() < 0.5, 'implied': rng.random() < 0.3,
            'g': rng.choice(['lin', 'sq']), 'x0': [round(rng.uniform(0.5, 1.5), 4) for _ in range(n)],
            'mode': rng.choice(['fwd', 'rev', 'auto']), 'direct': rng.random() < 0.6, 'promote': rng.random() < 0.5,
            'driver': rng.choice(['base', 'scipy']), 'obj': None, 'scaling': None, 'pos': pos, 'pwrt': pwrt,
            'method': rng.choice(['cs', 'cs', 'fd']),
            'other': rng.choice(['analytic-dense', 'analytic-dense', 'analytic-sparse', 'approx']),
            'by_block': rng.random() < 0.3, 'pcolsrc': rng.choice(['dynamic', 'dynamic', 'fixed-file'])}
    return case


def run_psub_case(case, acc):
    """Component coloring declared for some of the inputs only: colored partials == uncolored == closed form, and so
    are the totals of a driver coloring built on top of the sparsity the component reports."""
    import tempfile
    import os
    install(acc)
    _state['ctx'] = 'partialsub'
    ps = []
    tag = 'wrt-all' if case['pos'] == 'all' else 'wrt-subset'
    desc = '%s component, position %s, other inputs %s, method %s, %s coloring' % (
        'implicit' if case.get('implicit') else 'explicit', case['pos'], case['other'], case['method'], case['pcolsrc'])
    try:
        blocks = closed_form_h(case, False)
        dvs, _, resps, _ = _h_names(case)
        Jx = np.block([[blocks[a, b] for b in range(len(dvs))] for a in range(len(resps))])
        A = np.array(case['A'])
        if case['method'] == 'cs':
            tol = 1e-11 * np.abs(Jx).max()
        else:
            fmax = np.abs(A).sum(axis=1).max() * 2.25
            tol = np.abs(A).max() * 1e-6 * 1.01 + 32 * np.finfo(float).eps * fmax / 1e-6
        try:
            p0 = build_h(case)
            ps.append(p0)
            J0 = p0.compute_totals(return_format='array')
        except Exception as e:
            acc.skip('uncolored-raises:%s(not C03)' % type(e).__name__)
            return
        if J0.shape != Jx.shape or np.any(np.abs(J0 - Jx) > tol):
            acc.skip('uncolored-differs-from-closed-form(not C03)')
            return
        par = 'dynamic'
        res = {}
        used = {}
        stage = 'partials'
        try:
            if case['pcolsrc'] != 'dynamic':
                pg = build_h(case, par='dynamic')
                ps.append(pg)
                pg.compute_totals(return_format='array')
                col = pg.model.c._coloring_info.coloring
                if col is None:
                    acc.skip('no-coloring-to-fix')
                    return
                par = os.path.join(tempfile.mkdtemp(prefix='c03pcol'), 'partial_coloring.pkl')
                col.save(par)
            for stage, tot in (('partials', None), ('totals-on-top', 'dynamic')):
                c0 = acc.counters.get('hook:_colored_column_iter', 0)
                s0 = acc.counters.get('hook:simul_coloring_jac_setter', 0)
                q = build_h(case, tot=tot, par=par)
                ps.append(q)
                res[stage] = q.compute_totals(return_format='array')
                used[stage] = (acc.counters.get('hook:_colored_column_iter', 0) > c0,
                               acc.counters.get('hook:simul_coloring_jac_setter', 0) > s0)
        except Exception as e:
            acc.viol('partialsub:%s:%s:raises:%s' % (tag, stage, type(e).__name__), str(e)[:300], case)
            return
        acc.count('obs:partialsub-colored-vs-uncolored')
        acc.count('cell:partialsub/%s' % case['pos'])
        acc.count('cell:partialsub/other-%s' % case['other'])
        acc.count('cell:partialsub/%s' % case['method'])
        acc.count('cell:partialsub/%s' % case['pcolsrc'])
        if case['by_block']:
            acc.count('cell:partialsub/partials-declared-per-nonzero-block')
        acc.count('cell:partialsub/%s' % ('implicit' if case.get('implicit') else 'explicit'))
        if case.get('implied'):
            acc.count('cell:partialsub/approximation-implied-by-declare_coloring')
        bad = False
        for stage in ('partials', 'totals-on-top'):
            J = res[stage]
            d = np.abs(J - Jx) if J.shape == Jx.shape else None
            if d is None or np.any(d > tol) or np.any(np.abs(J - J0) > 2 * tol):
                k = np.unravel_index(np.argmax(d), d.shape) if d is not None else None
                acc.viol('partialsub:%s:%s:colored-differs-from-uncolored' % (tag, stage),
                         'declare_coloring(wrt=%s) [%s]: %s' % (case['pwrt'], desc, 'shape %s' % (J.shape,) if d is None else
                                                         'entry %s colored %r exact %r, %d of %d entries wrong' %
                                                         (tuple(int(v) for v in k), J[k], Jx[k], int((d > tol).sum()),
                                                          d.size)), case, new_case=not bad)
                bad = True
        if bad:
            return
        if not used['partials'][0]:
            acc.skip('partial-coloring-not-used')
            return
        if used['totals-on-top'][1]:
            acc.count('obs:partialsub-total-coloring-on-top-used')
        acc.ok(fingerprint(['partialsub', case['isz'], case['osz'], (A != 0).astype(int).tolist(), case['pwrt'],
                            bool(case.get('implicit')), case['method'], case['other'], case['by_block'], case['pcolsrc'], case['mode']]),
               nontrivial=True, sample=case if case['idx'] % 23 == 0 else None)
    finally:
        _state['ctx'] = None
        for q in ps:
            try:
                q.cleanup()
            except Exception:
                pass


# ----------------------------------------------------------------------------------------------
# (b4) framework layer, colorings that are REUSED: written to a file / copied in one problem, used in another one
# ----------------------------------------------------------------------------------------------
TOTAL_WAYS = ['file', 'file', 'run1-file', 'std-dir', 'third-run', 'compute_total_coloring-fname', 'pickled-object',
              'deepcopied-object']
PARTIAL_WAYS = ['file', 'run1-file', 'std-dir', 'third-run', 'pickled-object']
WAY_GROUP = {'file': 'file', 'run1-file': 'file', 'std-dir': 'file', 'third-run': 'file',
             'compute_total_coloring-fname': 'file', 'pickled-object': 'object-copy', 'deepcopied-object': 'object-copy'}


def _split(rng, total, parts):
    """`total` as a list of `parts` positive sizes <= 6."""
    parts = max(parts, -(-total // 6))
    parts = min(parts, total)
    cuts = sorted(rng.sample(range(1, total), parts - 1)) if parts > 1 else []
    sizes = [b - a for a, b in zip([0] + cuts, cuts + [total])]
    while max(sizes) > 6:
        k = sizes.index(max(sizes))
        j = sizes.index(min(sizes))
        sizes[k] -= 1
        sizes[j] += 1
    return sizes


def gen_reload_case(rng, idx, uid, rot=0):
    # the ways rotate (every shard visits every way), everything else is random
    if idx % 4 == 3:
        case = gen_psub_case(rng, idx)
        case.update({'kind': 'reload', 'layer': 'partial', 'way': PARTIAL_WAYS[(idx // 4 + rot) % len(PARTIAL_WAYS)],
                     'uid': uid, 'driver': 'scipy'})
        return case
    # patterns for which the bidirectional coloring wins and the substitution method leaves a subtraction list:
    # a few dense rows AND columns over something sparse
    m, n = rng.randrange(4, 10), rng.randrange(4, 10)
    kind = rng.choice(['arrow', 'arrow', 'eisenstat', 'eisenstat', 'blockdiag+dense', 'random+cross'])
    if kind == 'random+cross':
        P = np.array([[rng.random() < 0.15 for _ in range(n)] for _ in range(m)], dtype=bool)
        P[np.arange(min(m, n)), np.arange(min(m, n))] = True
        P[rng.randrange(m), :] = True
        P[:, rng.randrange(n)] = True
    else:
        P = structured_pattern(rng, m, n, kind)
    if rng.random() < 0.5:                  # the dense rows / columns anywhere, not only first
        P = P[rng.sample(range(m), m), :][:, rng.sample(range(n), n)]
    for i in range(m):
        if not P[i].any():
            P[i, rng.randrange(n)] = True
    for j in range(n):
        if not P[:, j].any():
            P[rng.randrange(m), j] = True
    isz, osz = _split(rng, n, rng.choice([1, 2, 3])), _split(rng, m, rng.choice([1, 2, 3]))
    A = [[round(rng.uniform(1, 2), 4) if P[i, j] else 0.0 for j in range(n)] for i in range(m)]
    case = {'kind': 'reload', 'layer': 'total', 'idx': idx, 'uid': uid, 'isz': isz, 'osz': osz, 'pkind': kind, 'A': A,
            'g': rng.choice(['lin', 'sq']), 'x0': [round(rng.uniform(0.5, 1.5), 4) for _ in range(n)],
            'mode': rng.choice(['auto', 'auto', 'auto', 'auto', 'auto', 'auto', 'fwd', 'rev']),
            'direct': rng.random() < 0.25, 'promote': rng.random() < 0.5, 'driver': 'scipy', 'obj': None,
            'way': TOTAL_WAYS[(idx - idx // 4 + rot) % len(TOTAL_WAYS)], 'scaling': None}
    if rng.random() < 0.4:
        case['scaling'] = {'dv': [[round(rng.uniform(0.2, 5), 3) for _ in range(k)] for k in isz],
                           'con': [[round(rng.uniform(0.2, 5), 3) for _ in range(k)] for k in osz]}
    case['ds'] = bool(case['scaling']) and rng.random() < 0.7
    return case


def run_reload_case(case, acc):
    """Problem 1 computes a coloring (dynamic); problem 2 (3) gets it through a file / a copy; every problem's
    derivatives must equal the uncolored twin's and the closed form."""
    import contextlib
    import copy
    import io
    import os
    import pickle
    import tempfile
    import openmdao.utils.coloring as cm
    install(acc)
    layer, way = case['layer'], case['way']
    _state['ctx'] = 'reload'
    ps = []
    total = layer == 'total'
    uid = case['uid']
    ds = bool(case.get('ds'))
    hook = 'hook:simul_coloring_jac_setter' if total else 'hook:_colored_column_iter'

    def cnt(name):
        return acc.counters.get(name, 0)

    def build(col, name=None):
        q = build_h(case, name=name, **({'tot': col} if total else {'par': col}))
        ps.append(q)
        return q

    def coloring_of(q):
        return (q.driver if total else q.model.c)._coloring_info.coloring
    try:
        blocks = closed_form_h(case, ds)
        dvs, _, resps, _ = _h_names(case)
        Jx = np.block([[blocks[a, b] for b in range(len(dvs))] for a in range(len(resps))])
        A = np.array(case['A'])
        if total or case['method'] == 'cs':
            tol = (1e-12 if total else 1e-11) * np.abs(Jx).max()
        else:
            fmax = np.abs(A).sum(axis=1).max() * 2.25
            tol = np.abs(A).max() * 1e-6 * 1.01 + 32 * np.finfo(float).eps * fmax / 1e-6
        try:
            p0 = build_h(case)
            ps.append(p0)
            J0 = p0.compute_totals(return_format='array', driver_scaling=ds)
        except Exception as e:
            acc.skip('uncolored-raises:%s(not C03)' % type(e).__name__)
            return
        if J0.shape != Jx.shape or np.any(np.abs(J0 - Jx) > tol):
            acc.skip('uncolored-differs-from-closed-form(not C03)')
            return
        res = []            # (who, J first call, J second call, coloring used, subtractions applied)
        stage = 'first-run'
        quiet = contextlib.redirect_stdout(io.StringIO())           # 'loading coloring from file ...'
        quiet.__enter__()
        try:
            p1 = build('dynamic', name='c03r_%s_a' % uid)
            if way == 'compute_total_coloring-fname':
                fn = os.path.join(tempfile.mkdtemp(prefix='c03rl'), 'offline_total_coloring.pkl')
                with contextlib.redirect_stdout(io.StringIO()):
                    col = cm.compute_total_coloring(p1, fname=fn)
            h0, s0 = cnt(hook), cnt('hook:_apply_subtractions')
            Ja = p1.compute_totals(return_format='array', driver_scaling=ds)
            Jb = p1.compute_totals(return_format='array', driver_scaling=ds)
            res.append(('dynamic', Ja, Jb, cnt(hook) > h0, cnt('hook:_apply_subtractions') > s0))
            if way != 'compute_total_coloring-fname':
                col = coloring_of(p1)
            if col is None:
                acc.skip('no-coloring-to-reuse')
                return
            has_subs = bool(col._subtractions)
            bidir = bool(col._fwd and col._rev)
            names = ['c03r_%s_b' % uid]
            if way in ('file', 'third-run'):
                src = os.path.join(tempfile.mkdtemp(prefix='c03rl'), 'saved_coloring.pkl')
                col.save(src)
            elif way == 'compute_total_coloring-fname':
                src = fn
            elif way == 'run1-file':                      # the file the framework wrote itself in run 1
                src = str((p1.driver if total else p1.model.c).get_coloring_fname(mode='output'))
            elif way == 'std-dir':                          # same problem name = same coloring directory
                src, names = 'std', ['c03r_%s_a' % uid]
            elif way == 'pickled-object':
                src = pickle.loads(pickle.dumps(col))
            else:
                src = copy.deepcopy(col)
            if way == 'third-run':
                names.append(names[0])
            for k, nm in enumerate(names):
                stage = 'reloaded' if k == 0 else 'reloaded-from-resaved-file'
                q = build(src, name=nm)
                h0, s0 = cnt(hook), cnt('hook:_apply_subtractions')
                Ja = q.compute_totals(return_format='array', driver_scaling=ds)
                Jb = q.compute_totals(return_format='array', driver_scaling=ds)
                res.append((stage, Ja, Jb, cnt(hook) > h0, cnt('hook:_apply_subtractions') > s0))
                src = 'std'         # a third run takes the file the second run re-saved in its own directory
        except Exception as e:
            acc.viol('reload:%s:%s:%s:raises:%s' % (layer, WAY_GROUP[way], stage, type(e).__name__),
                     'way %s: %s' % (way, str(e)[:300]), case)
            return
        finally:
            quiet.__exit__(None, None, None)
        acc.count('obs:reload-colored-vs-uncolored')
        acc.count('cell:reload/%s/%s' % (layer, way))
        if total:
            modetag = '%s:%s' % (case['mode'], 'direct' if case['direct'] else 'substitution')
            if not case['direct']:
                acc.count('cell:reload/substitution')
            if bidir:
                acc.count('obs:reload-bidirectional-coloring')
            if has_subs:
                acc.count('obs:reload-coloring-has-subtractions')
                acc.count('obs:reload-coloring-has-subtractions/%s' % WAY_GROUP[way])
                modetag += '-with-subtractions'
            if ds:
                acc.count('cell:reload/scaled')
        else:
            modetag = case['method']
        bad = False
        for who, Ja, Jb, used, subs_applied in res:
            for nth, J in (('first-call', Ja), ('second-call', Jb)):
                d = np.abs(J - Jx) if J.shape == Jx.shape else None
                lim = tol if total or case['method'] == 'cs' else 2 * tol
                if d is None or np.any(d > tol) or np.any(np.abs(J - J0) > lim) or not np.all(np.isfinite(J)):
                    k = np.unravel_index(np.argmax(d), d.shape) if d is not None else None
                    src_tag = 'dynamic' if who == 'dynamic' else '%s:%s' % (WAY_GROUP[way], who)
                    acc.viol('reload:%s:%s:%s:colored-differs-from-uncolored' % (layer, modetag, src_tag),
                             'way %s, %s, %s: %s (coloring used %s, subtractions applied %s; coloring of run 1: '
                             'bidirectional %s, subtractions %s)' %
                             (way, who, nth, 'shape %s' % (J.shape,) if d is None else
                              'entry %s colored %r exact %r, %d of %d entries wrong' %
                              (tuple(int(v) for v in k), J[k], Jx[k], int((d > tol).sum()), d.size), used,
                              subs_applied, bidir, _norm_subs(col._subtractions)), case, new_case=not bad)
                    bad = True
                    break
            if bad:
                break
        if bad:
            return
        if not all(r[3] for r in res):
            acc.skip('coloring-not-used')
            return
        if total and has_subs and all(r[4] for r in res[1:]):
            acc.count('obs:reload-subtractions-applied-after-reload')
        if len(res) > 2:
            acc.count('obs:reload-third-run-used-resaved-file')
        acc.ok(fingerprint(['reload', layer, case['isz'], case['osz'], (A != 0).astype(int).tolist(), modetag, way,
                            bool(case.get('scaling')), ds, case.get('pwrt'), bool(case.get('implicit'))]),
               nontrivial=True, sample=case if case['idx'] % 23 == 0 else None)
    finally:
        _state['ctx'] = None
        for q in ps:
            try:
                q.cleanup()
            except Exception:
                pass


EXEC_FAMILIES = [['y = 3*a + b**2', 'z = a*b'], ['y = sin(a)', 'z = 2*b'], ['y = a*sum(b)', 'z = b']]


# ----------------------------------------------------------------------------------------------
# (b5) framework layer, HISTORIES: a component that colours its own partials is linearized after operations that leave
#      imaginary parts / perturbations in its vectors
# ----------------------------------------------------------------------------------------------
_EPS = float(np.finfo(float).eps)


def _fd_bound(curv, fmax, form=None, step=1e-6):
    """Error bound of a finite difference with absolute step `step`: truncation (forward / backward: step/2 * |f''|;
    central: 0 for the quadratics used here - the same bound is kept) + round-off of the difference."""
    return 1.01 * 0.5 * step * curv + 64.0 * _EPS * max(fmax, 1.0) / step


def run_hist_case(case, acc):
    """The same history of public-API operations on the problem whose component colours its own partials and on its
    uncoloured twin; every derivative either of them returns must equal the closed form at the current point, and the
    component's outputs must stay what the model computed."""
    from omv.gen import c03_hist as H
    install(acc)
    _state['ctx'] = 'history'
    comp, method = case['comp'], case['method']
    n1, n2, m1, m2 = case['sizes']
    newton = bool(case.get('newton'))
    ps = {}
    of, wrt = ['c.y', 'c.z'], ['ivc.a', 'ivc.b']
    prev = 'clean'          # the last operation that may have left something behind
    pos = -1

    def key(op, obs):
        return 'hist:%s:%s:%s-after-%s:%s' % (comp, method, op, prev, obs)

    try:
        try:
            c0 = acc.counters.get('hook:_colored_column_iter', 0)
            ps[True] = H.build_hist(case, True)
            ps[False] = H.build_hist(case, False)
        except Exception as e:
            acc.viol('hist:%s:%s:setup:raises:%s' % (comp, method, type(e).__name__), str(e)[:300], case)
            return
        x = np.array(case['x0'], dtype=float)
        cells = set()
        residue_seen = False
        for pos, o in enumerate(case['ops']):
            op = o['op']
            if op == 'new-point':
                x = np.array(o['x'], dtype=float)
            u, out, Jp, chain, curv = H.hist_closed(case, x)
            Jt = Jp * chain[None, :]
            fmax = float(np.abs(out).max())
            jmax = max(np.abs(Jp).max(), 1.0)
            rnd = _fd_bound(0.0, fmax)
            # error of one entry of the partials the component approximates
            tol_p = 1e-11 * jmax if method == 'cs' else _fd_bound(curv, fmax, case.get('form'))
            # totals: d out / d u times the chain (<= 2); an implicit component's totals are (dR/dy)^-1 dR/du with an
            # approximated dR/dy = I + Ey as well (R is linear in y: Ey is round-off only)
            tol_t = 2.0 * (tol_p + ((1e-11 if method == 'cs' else rnd) * jmax * (m1 + m2) if comp == 'pat-implicit'
                                    else 0.0))
            # Newton under complex step: the approximations fall back to forward differences with the default step;
            # one Newton step with dR/du off by Eu and dR/dy off by Ey leaves (Eu + Ey |J|) |du| in the imaginary part
            e_ucs = _fd_bound(curv, fmax) + rnd * jmax * (m1 + m2)
            res = {}
            for colored in (True, False):
                p = ps[colored]
                try:
                    if op == 'totals':
                        if colored and case['cplx'] and np.any(p.model.c._inputs._data.imag != 0.0):
                            residue_seen = True
                            if p.model.c._coloring_info.coloring is not None:
                                cells.add('imaginary-residue-in-the-inputs-of-a-linearization-that-reuses-the-coloring')
                        res[colored] = {'J': np.array(p.compute_totals(of=of, wrt=wrt, return_format='array'))}
                    elif op == 'manual-cs':
                        h, d = o['h'], np.array(o['d'], dtype=float)
                        p.set_complex_step_mode(True)
                        try:
                            p.set_val('ivc.a', x[:n1] + 1j * h * d[:n1])
                            p.set_val('ivc.b', x[n1:] + 1j * h * d[n1:])
                            p.run_model()
                            res[colored] = {'dir': np.concatenate([p.get_val('c.y').imag, p.get_val('c.z').imag]) / h}
                        finally:
                            p.set_complex_step_mode(False)
                    elif op == 'new-point':
                        p.set_val('ivc.a', x[:n1])
                        p.set_val('ivc.b', x[n1:])
                        p.run_model()
                    elif op == 'run-model':
                        p.run_model()
                    elif op == 'linearize':
                        p.model.run_linearize()
                    elif op == 'check-partials':
                        kw = {'method': o['method']}
                        if o.get('step'):
                            kw['step'] = o['step']
                        data = p.check_partials(out_stream=None, includes=['c'], **kw)
                        blk = {}
                        for (a, b), dd in data['c'].items():
                            if a in ('y', 'z') and b in ('a', 'b'):
                                blk[a, b] = np.atleast_2d(np.array(dd['J_fwd']))
                        sign = -1.0 if comp == 'pat-implicit' else 1.0
                        res[colored] = {'Jp': sign * np.block([[blk['y', 'a'], blk['y', 'b']],
                                                               [blk['z', 'a'], blk['z', 'b']]])}
                    elif op == 'check-totals':
                        data = p.check_totals(of=of, wrt=wrt, method=o['method'], out_stream=None)
                        which = {}
                        for nm in ('J_fwd', 'J_rev', 'J_fd'):
                            if all(nm in data[a, b] and data[a, b][nm] is not None for a in of for b in wrt):
                                which[nm] = np.block([[np.atleast_2d(np.array(data[a, b][nm])) for b in wrt]
                                                      for a in of])
                        res[colored] = which
                    yv = np.concatenate([np.array(p.get_val('c.y')).real, np.array(p.get_val('c.z')).real])
                    res.setdefault(colored, {})['out'] = yv
                except Exception as e:
                    res[colored] = e
            if isinstance(res[False], Exception):
                acc.skip('history-uncolored-twin-raises(not C03):%s%s:%s-after-%s:%s' % (
                    comp, '+newton' if newton else '', op, prev, type(res[False]).__name__))
                return
            if isinstance(res[True], Exception):
                acc.viol(key(op, 'raises:%s' % type(res[True]).__name__), 'operation %d of the history: %s; the '
                         'uncoloured twin does not raise' % (pos, str(res[True])[:300]), case)
                return
            # --- judge
            acc.count('obs:hist-op/%s' % op)
            exp = {'J': (Jt, tol_t), 'J_fwd': (Jt, tol_t), 'J_rev': (Jt, tol_t), 'Jp': (Jp, tol_p),
                   'out': (out, 1e-9 * max(fmax, 1.0) if newton else 1e-12 * max(fmax, 1.0))}
            if op == 'manual-cs':
                dd = np.abs(np.array(o['d'], dtype=float))
                exp['dir'] = (Jt.dot(np.array(o['d'], dtype=float)),
                              2.0 * e_ucs * (chain * dd).sum() if newton else 1e-11 * 2.0 * jmax * dd.sum())
            if op == 'check-totals' and newton and o['method'] == 'cs':
                # the whole model runs under complex step, Newton linearizes the component there (its approximations
                # fall back to finite differences): right only if the coloured dR/dy is right
                exp['J_fd'] = (Jt, 2.0 * e_ucs * chain.max())
                cells.add('newton-linearizes-under-cs')
            for nm, (want, tol) in exp.items():
                if nm not in res[False]:
                    continue
                if res[False][nm].shape != want.shape or np.any(np.abs(res[False][nm] - want) > tol):
                    acc.skip('history-uncolored-twin-differs-from-closed-form(not C03):%s%s:%s-after-%s:%s' % (
                        comp, '+newton' if newton else '', op, prev, nm))
                    return
            for nm, (want, tol) in exp.items():
                if nm not in res[False]:
                    continue
                got = res[True].get(nm)
                bad = got is None or got.shape != want.shape or np.any(np.abs(got - want) > tol) or \
                    np.any(np.abs(got - res[False][nm]) > 2 * tol) or not np.all(np.isfinite(got))
                if bad:
                    obs = 'outputs-changed' if nm == 'out' else 'colored-differs-from-uncolored'
                    dmax = float(np.abs(got - want).max()) if got is not None and got.shape == want.shape else None
                    acc.viol(key(op, obs), 'operation %d (%s) of the history %s, observable %s: max|colored - exact| = %r '
                             '(tolerance %.3g), uncoloured twin within tolerance' %
                             (pos, op, [q['op'] for q in case['ops']], nm, dmax, tol), case)
                    return
            if op == 'totals':
                cells.add('totals-after-%s' % prev)
                if pos > 0 and case['ops'][0]['op'] != 'totals' and all(q['op'] != 'totals'
                                                                          for q in case['ops'][:pos]):
                    cells.add('dirtied-before-the-coloring-exists')
                prev = 'clean'
            elif op in H.DIRTY:
                prev = op
            elif op in ('run-model', 'new-point'):
                prev = prev if prev == 'clean' else prev + '+run_model'
            elif op == 'linearize':
                prev = prev if prev == 'clean' else prev + '+linearize'
        cinfo = ps[True].model.c._coloring_info
        used = (acc.counters.get('hook:_colored_column_iter', 0) > c0) if comp != 'exec-auto' else \
            cinfo.coloring is not None
        if not used:
            acc.skip('history-coloring-not-used')
            return
        acc.count('obs:hist-colored-vs-uncolored')
        acc.count('cell:hist/%s' % comp)
        acc.count('cell:hist/%s' % method)
        if residue_seen:
            acc.count('obs:hist-imaginary-residue-in-inputs-at-linearization')
            if comp == 'exec-auto':
                acc.count('obs:hist-imaginary-residue-in-inputs-at-linearization/exec-auto')
        if not case['cplx']:
            acc.count('cell:hist/real-vectors')
        for cnm in cells:
            acc.count('cell:hist/%s' % cnm)
            if cnm.startswith('imaginary-residue'):
                acc.count('cell:hist/%s/%s' % (cnm, comp))
        acc.ok(fingerprint(['history', comp, method, case.get('form'), case['sizes'], case.get('fam'),
                            (np.array(case['A']) != 0).astype(int).tolist() if 'A' in case else None,
                            case['pre'], case['cplx'], newton, case['mode'],
                            [(q['op'], q.get('method')) for q in case['ops']]]), nontrivial=True,
               sample=case if case['idx'] % 29 == 0 else None)
    finally:
        _state['ctx'] = None
        for q in ps.values():
            try:
                q.cleanup()
            except Exception:
                pass


# ----------------------------------------------------------------------------------------------
# (b6) framework layer, APPROXIMATED TOTALS with a colouring: several independent chains, design variables / responses
#      with indices
# ----------------------------------------------------------------------------------------------
def run_atot_case(case, acc):
    """Approximated totals (model.approx_totals) with a colouring against the uncoloured twin and the closed form, for
    a short sequence of compute_totals / Driver._compute_totals calls.  The call during which the colouring is computed
    (the first one, when the colouring is declared on the model) is judged like any other, but a violation there does
    not end the sequence, so that it cannot hide what the calls that USE the colouring do."""
    import contextlib
    import io
    from omv.gen import c03_hist as H
    install(acc)
    _state['ctx'] = 'atot'
    ps = {}
    method = case['method']
    tag = '%s:decl-%s' % (method, case['decl'])
    has_idx = any(v is not None for v in case['didx'])
    has_cidx = any(v is not None for v in case['cidx'])
    idxtag = ('dv-indices' if has_idx else 'dv-full') + ('+con-indices' if has_cidx else '')
    call = 'setup'
    bad = False

    def cclass(pos):
        return 'call-that-computes-the-coloring' if pos == 0 and case['decl'] != 'driver' else 'coloring-exists'

    try:
        try:
            c0 = acc.counters.get('hook:_colored_column_iter', 0)
            ps[True] = H.build_atot(case, True)
            ps[False] = H.build_atot(case, False)
            xs = [np.array(v, dtype=float) for v in case['x0']]
            if case['decl'] == 'driver':
                # the optimizer run computes the colouring (one SLSQP iteration); then back to the point
                call = 'run_driver'
                with contextlib.redirect_stdout(io.StringIO()):
                    ps[True].run_driver()
                for k, v in enumerate(xs):
                    ps[True].set_val('ivc.x%d' % k, v)
                ps[True].run_model()
        except Exception as e:
            acc.viol('atot:%s:%s:%s:raises:%s' % (call, idxtag, tag, type(e).__name__), str(e)[:300], case)
            return
        # cells VISITED (both problems built, the colouring requested), whatever the verdict will be
        acc.count('cell:atot/%s' % method)
        acc.count('cell:atot/decl-%s' % case['decl'])
        acc.count('cell:atot/chains-%d' % len(case['chains']))
        if has_idx:
            acc.count('cell:atot/dv-indices')
            if len(case['chains']) > 1:
                acc.count('cell:atot/dv-indices-and-several-chains')
        if has_cidx:
            acc.count('cell:atot/con-indices')
        for nm in ('join', 'idle', 'scaling'):
            if case.get(nm):
                acc.count('cell:atot/%s' % nm)
        if case.get('obj'):
            acc.count('cell:atot/objective-%s' % case['obj'])
        ncalls = 0
        for pos, call in enumerate(case['calls']):
            if call == 'new-point':
                xs = [np.array(v, dtype=float) for v in case['x1']]
                for p in ps.values():
                    for k, v in enumerate(xs):
                        p.set_val('ivc.x%d' % k, v)
                    p.run_model()
                continue
            scaled = call in ('driver', 'totals-scaled')
            Jx, fmax = H.atot_closed(case, xs, scaled)
            res = {}
            for colored in (True, False):
                p = ps[colored]
                try:
                    if call == 'driver':
                        res[colored] = np.array(p.driver._compute_totals(return_format='array'))
                    else:
                        res[colored] = np.array(p.compute_totals(return_format='array', driver_scaling=scaled))
                except Exception as e:
                    res[colored] = e
            if isinstance(res[False], Exception):
                acc.skip('atot-uncolored-twin-raises(not C03)')
                return
            if isinstance(res[True], Exception):
                acc.viol('atot:%s:%s:%s:raises:%s' % (cclass(pos), idxtag, tag, type(res[True]).__name__),
                         'call %d (%s): %s; the uncoloured twin does not raise' % (pos, call, str(res[True])[:300]),
                         case, new_case=not bad)
                return
            sc = 1.0
            if scaled and case.get('scaling'):
                sc = max(case['cons'] + [1.0]) / min(case['dvs'] + [1.0])
            if method == 'cs':
                tol = 1e-11 * max(np.abs(Jx).max(), 1.0)
            else:
                tol = _fd_bound(H.atot_curvature(case, xs), fmax, case.get('form')) * sc
            if res[False].shape != Jx.shape or np.any(np.abs(res[False] - Jx) > tol):
                acc.skip('atot-uncolored-twin-differs-from-closed-form(not C03)')
                return
            got = res[True]
            if got.shape != Jx.shape or np.any(np.abs(got - Jx) > tol) or np.any(np.abs(got - res[False]) > 2 * tol):
                if got.shape != Jx.shape:
                    what = 'shape %s, expected %s' % (got.shape, Jx.shape)
                else:
                    d = np.abs(got - Jx)
                    k = np.unravel_index(np.argmax(d), d.shape)
                    zero_cols = [int(j) for j in range(Jx.shape[1]) if np.all(got[:, j] == 0) and np.any(Jx[:, j] != 0)]
                    what = 'entry %s colored %r exact %r; %d of %d entries wrong; columns all zero: %s' % (
                        tuple(int(v) for v in k), got[k], Jx[k], int((d > tol).sum()), d.size, zero_cols)
                acc.viol('atot:%s:%s:%s:colored-differs-from-uncolored' % (cclass(pos), idxtag, tag),
                         'call %d (%s), %d chains, design-variable indices %s, constraint indices %s: %s' %
                         (pos, call, len(case['chains']), case['didx'], case['cidx'], what), case, new_case=not bad)
                if bad or cclass(pos) == 'coloring-exists':
                    return
                bad = True
                continue
            ncalls += 1
        if bad:
            return
        if acc.counters.get('hook:_colored_column_iter', 0) <= c0 or ps[True].model._coloring_info.coloring is None:
            acc.skip('atot-coloring-not-used')
            return
        acc.count('obs:atot-colored-vs-uncolored')
        acc.count('obs:atot-colored-vs-uncolored/decl-%s' % case['decl'])
        acc.ok(fingerprint(['atot', method, case.get('form'), case['decl'], case['driver'],
                            [[c['n'], c['m'], (np.array(c['A']) != 0).astype(int).tolist()] for c in case['chains']],
                            case['didx'], case['cidx'], case['obj'], case['join'], case['idle'], case['calls']]),
               nontrivial=True, sample=case if case['idx'] % 29 == 0 else None)
    finally:
        _state['ctx'] = None
        for q in ps.values():
            try:
                q.cleanup()
            except Exception:
                pass


# ----------------------------------------------------------------------------------------------
# framework entry points
# ----------------------------------------------------------------------------------------------
def enum_shapes(tier):
    if tier == 'quick':
        return [(r, c) for r in range(1, 5) for c in range(1, 5) if r * c <= 12 and (r, c) != (4, 4)]
    return [(r, c) for r in range(1, 5) for c in range(1, 5)]


def shards(tier, seed):
    out = []
    # exhaustive enumeration, split so that no shard exceeds ~2^12 patterns (quick) / 2^13 (thorough)
    chunk = 1024 if tier == 'quick' else 4096
    small = []
    for shp in enum_shapes(tier):
        total = 1 << (shp[0] * shp[1])
        if total <= 512:
            small.append(list(shp))
            continue
        for lo in range(0, total, chunk):
            out.append({'kind': 'enum', 'shapes': [list(shp)], 'lo': lo, 'hi': min(total, lo + chunk)})
    out.append({'kind': 'enum', 'shapes': small, 'lo': 0, 'hi': None})
    nr = 4 if tier == 'quick' else 16
    for k in range(nr):
        out.append({'kind': 'random', 'seed': seed * 1000 + k, 'n': 500 if tier == 'quick' else 1250})
    nf = 6 if tier == 'quick' else 16
    for k in range(nf):
        out.append({'kind': 'framework', 'seed': seed * 1000 + 300 + k, 'n': 50 if tier == 'quick' else 150})
    for k in range(5 if tier == 'quick' else 16):
        out.append({'kind': 'calls', 'seed': seed * 1000 + 500 + k, 'n': 40 if tier == 'quick' else 150})
    for k in range(4 if tier == 'quick' else 12):
        out.append({'kind': 'partialsub', 'seed': seed * 1000 + 700 + k, 'n': 30 if tier == 'quick' else 120})
    for k in range(4 if tier == 'quick' else 12):
        out.append({'kind': 'reload', 'seed': seed * 1000 + 900 + k, 'n': 30 if tier == 'quick' else 120})
    for k in range(3 if tier == 'quick' else 10):
        out.append({'kind': 'history', 'seed': seed * 1000 + 1100 + k, 'n': 24 if tier == 'quick' else 100})
    for k in range(2 if tier == 'quick' else 8):
        out.append({'kind': 'atot', 'seed': seed * 1000 + 1300 + k, 'n': 40 if tier == 'quick' else 150})
    return out


def run_shard(shard, acc):
    install(acc)
    if shard['kind'] == 'enum':
        for shp in shard['shapes']:
            shp = tuple(shp)
            total = 1 << (shp[0] * shp[1])
            lo = shard['lo']
            hi = shard['hi'] if shard['hi'] is not None else total
            for bits in range(lo, min(hi, total)):
                P = pattern_from_bits(bits, shp)
                for mode, direct in COMBOS:
                    call_contracted(P, mode, direct, acc)
            acc.count('enumerated-patterns', min(hi, total) - lo)
    elif shard['kind'] == 'random':
        rng = random.Random(shard['seed'])
        for i in range(shard['n']):
            big = rng.random() < 0.25
            n = rng.randrange(2, 41 if big else 13)
            m = rng.randrange(2, 41 if big else 13)
            kind = rng.choice(['arrow', 'blockdiag+dense', 'banded', 'eisenstat', 'random', 'random', 'random'])
            P = structured_pattern(rng, n, m, kind)
            for mode, direct in COMBOS:
                call_contracted(P, mode, direct, acc)
            acc.count('random-patterns')
    elif shard['kind'] == 'framework':
        rng = random.Random(shard['seed'])
        for i in range(shard['n']):
            k = i % 10
            try:
                if k < 6:
                    run_fw_case(gen_fw_case(rng, i, 'total'), acc)
                elif k < 9:
                    run_fw_case(gen_fw_case(rng, i, 'partial'), acc)
                else:
                    fam = rng.randrange(3)
                    n = rng.choice([2, 3, 5])
                    run_execcomp_case({'kind': 'execcomp', 'n': n, 'family': fam, 'exprs': EXEC_FAMILIES[fam],
                                       'x0': [round(rng.uniform(0.5, 1.5), 4) for _ in range(n)]}, acc)
            except Exception as e:
                import traceback
                acc.viol('harness-error:%s' % type(e).__name__, traceback.format_exc()[-500:], {'kind': 'harness'})
    elif shard['kind'] in ('calls', 'partialsub', 'reload', 'history', 'atot'):
        rng = random.Random(shard['seed'])
        for i in range(shard['n']):
            try:
                if shard['kind'] == 'history':
                    from omv.gen import c03_hist
                    run_hist_case(c03_hist.gen_hist_case(rng, i), acc)
                elif shard['kind'] == 'atot':
                    from omv.gen import c03_hist
                    run_atot_case(c03_hist.gen_atot_case(rng, i), acc)
                elif shard['kind'] == 'calls':
                    run_calls_case(gen_calls_case(rng, i), acc)
                elif shard['kind'] == 'reload':
                    run_reload_case(gen_reload_case(rng, i, '%d_%d' % (shard['seed'], i), shard['seed']), acc)
                else:
                    run_psub_case(gen_psub_case(rng, i), acc)
            except Exception as e:
                import traceback
                acc.viol('harness-error:%s' % type(e).__name__, traceback.format_exc()[-500:], {'kind': 'harness'})


def run_case(case, acc):
    install(acc)
    if case['kind'] == 'contract':
        if case.get('from'):
            acc.count('replay:contract-case-originated-in-framework-layer')
        P = np.array(case['pattern'], dtype=bool).reshape(case['shape'])
        call_contracted(P, case['mode'], case['direct'], acc)
    elif case['kind'] in ('total', 'partial'):
        run_fw_case(case, acc)
    elif case['kind'] == 'execcomp':
        run_execcomp_case(case, acc)
    elif case['kind'] == 'calls':
        run_calls_case(case, acc)
    elif case['kind'] == 'partialsub':
        run_psub_case(case, acc)
    elif case['kind'] == 'reload':
        run_reload_case(case, acc)
    elif case['kind'] == 'history':
        run_hist_case(case, acc)
    elif case['kind'] == 'atot':
        run_atot_case(case, acc)


def coverage_extra(tier, agg):
    shp = enum_shapes(tier)
    return {'exhaustive': True,
            'exhaustive_subspace': 'contract layer: all %d boolean patterns of the shapes %s x {fwd, rev, auto-direct, '
                                   'auto-substitution}; everything else (random/structured patterns, framework layer) '
                                   'is sampled' % (agg['counters'].get('enumerated-patterns', 0), shp)}
