"""C10 - Bounds enforcement keeps Newton updates inside bounds and along the step.

Monitor: every case builds a small model of implicit components with residual r = M y + kappa y^3 - t under
NewtonSolver(maxiter=1) + DirectSolver + a bounds-enforcing line search.  The start point (inside the box) is
written with set_val, run_model performs exactly one filtered Newton update, the result is read with get_val
(physical units, so the ref/ref0 handling is under test, not assumed).  The oracle is the closed-form Newton
step D = -J(y0)^-1 r(y0) computed in NumPy (omv/ref/boundstep.py) and three inequalities per entry:
inside [lower, upper]; not against D; not beyond the (alpha-scaled) full step.  For 'wall' enforcement an
entry whose full step leaves the box must end exactly on the bound (it may not move during backtracking).
The update is repeated (each run_model = one more Newton iteration from the previous in-bounds point).

Mechanism keys: <mechanism>:<line search>:<bound_enforcement>:<observable>.  <mechanism> is the scaling class of
the case (no-scale / pos-scale / neg-scale(ref<ref0) / mixed-sign-array-scale = a bounded variable whose array
ref/ref0 give ref - ref0 of both signs across its own entries); under negative scaling it is refined to
'scaled-bounds-not-swapped(ref<ref0)' only when the line search's scaled bound arrays are seen to be the unswapped
images of the declared bounds, and to 'scaled-bounds-swapped-on-positive-entries(mixed-sign-array-scale)' only when
the negatively scaled entries are right but positively scaled entries hold exchanged images
(diagnose_scaled_bounds; classification only, the verdict never depends on it), so any other defect under
negative scaling keeps the generic key.

Scaling dimensions of the generator (per variable): none / scalar / arrays with one sign / arrays with mixed signs
within the variable; array forms ref+ref0, ref only (scalar ref0), ref0 only (scalar ref); single entries left
unscaled (ref=1, ref0=0) next to scaled ones; per-entry +-inf holes and one-sided (undeclared) bounds combined with
all of these; several bounded variables with different sign patterns and unbounded variables in between (offsets
into the line search's bound arrays); size-4 variables declared with shape (2, 2) (2-D bound/ref arrays).

Hooks (plain wrappers, observation only): openmdao.solvers.linesearch.backtracking._enforce_bounds_vector /
_scalar / _wall count kernel executions; LinesearchSolver.solve is wrapped to count line-search entries.
"""
import random

import numpy as np

from omv.core import fingerprint
from omv.ref import boundstep as R

PROPERTY = 'C10'
LEVEL = 'exploration'
TECHNIQUE = 'runtime monitoring: closed-form Newton step + bound/step inequalities checked at get_val'
RULE = ('random tiny implicit models (1-2 components, 1-4 outputs each of size 1-4, size 4 also as shape (2,2)) with '
        'bound patterns none/lower/upper/both, scalar and per-entry arrays incl. +-inf entries; scalings ref/ref0 '
        'none, positive, ref<ref0, negative ref, arrays (ref and/or ref0) with one sign or with mixed signs of '
        'ref-ref0 inside one variable, partly unscaled arrays; res_ref; start points interior / on a bound / corner; '
        'Newton at group or '
        'component level; BoundsEnforceLS and ArmijoGoldsteinLS(alpha<=1, rho, c, Armijo/Goldstein) x '
        'bound_enforcement vector/scalar/wall; 1-3 successive updates; distinct = distinct structural '
        'description (sizes, bound pattern, scaling class, start class, ls, enforcement); non-trivial = the full '
        'Newton step leaves the box in at least one bounded entry')
ASSUMPTIONS = ['DirectSolver solves the scaled Newton system to 8*n*eps*cond (cases with scaled cond > 1e6 are '
               'discarded)',
               'ArmijoGoldsteinLS is used with alpha <= 1 (a larger alpha deliberately oversteps)',
               'lower < upper strictly, the start point is inside the box (on a bound allowed)',
               'a chain of updates stops at the first update that leaves the box (precondition of the next one)']
MIN_JUDGED = {'quick': 600, 'thorough': 15000}
REQUIRED_COUNTERS = ['obs:kernel:vector', 'obs:kernel:scalar', 'obs:kernel:wall', 'obs:linesearch.solve',
                     'obs:update-judged', 'obs:full-step-left-box', 'obs:wall-clamped-entry',
                     'cell:BoundsEnforceLS/vector', 'cell:BoundsEnforceLS/scalar', 'cell:BoundsEnforceLS/wall',
                     'cell:ArmijoGoldsteinLS/vector', 'cell:ArmijoGoldsteinLS/scalar',
                     'cell:ArmijoGoldsteinLS/wall', 'cell:scale/pos', 'cell:scale/neg', 'cell:scale/none',
                     'obs:ag-backtracked', 'cell:scale/mixsign', 'cell:scale/array-ref+scalar-ref0',
                     'cell:scale/scalar-ref+array-ref0', 'cell:scale/array-ref+array-ref0',
                     'cell:scale/partly-unscaled-array', 'cell:shape/2d-array-bounds-or-scaling',
                     'cell:neg/one-sided-entry', 'cell:mixsign/one-sided-entry',
                     'cell:mixsign/one-bound-undeclared', 'cell:mixsign/array-bounds', 'cell:mixsign/scalar-bounds',
                     'cell:mixsign/other-bounded-var-with-different-sign-pattern',
                     'cell:layout/bounded-var-after-unbounded-var', 'cell:layout/mixsign-var-after-unbounded-var',
                     'obs:mixsign-var-step-left-box-in-positive-entry',
                     'obs:mixsign-var-step-left-box-in-negative-entry']
SHARD_TIMEOUT = {'quick': 900, 'thorough': 3000}

_hooked = {}


def install_hooks(acc):
    """Count kernel executions (module globals are looked up at call time by _enforce_bounds)."""
    import openmdao.solvers.linesearch.backtracking as bt
    if _hooked.get('acc') is not None:
        _hooked['acc'] = acc
        return
    _hooked['acc'] = acc

    def wrap(name, label):
        orig = getattr(bt, name)

        def w(*a, **k):
            _hooked['acc'].count(label)
            return orig(*a, **k)
        w.__wrapped__ = orig
        setattr(bt, name, w)
    wrap('_enforce_bounds_vector', 'obs:kernel:vector')
    wrap('_enforce_bounds_scalar', 'obs:kernel:scalar')
    wrap('_enforce_bounds_wall', 'obs:kernel:wall')
    for cls in (bt.BoundsEnforceLS, bt.ArmijoGoldsteinLS):
        orig_solve = cls._solve

        def _solve(self, _orig=orig_solve):
            _hooked['acc'].count('obs:linesearch.solve')
            r = _orig(self)
            if isinstance(self, bt.ArmijoGoldsteinLS) and self._iter_count > 1:
                _hooked['acc'].count('obs:ag-backtracked')
            return r
        cls._solve = _solve


# ----------------------------------------------------------------------------------------------
# case generation
# ----------------------------------------------------------------------------------------------
def _gen_scaling(rng, n, sm):
    """ref, ref0 (None / scalar / list of n) for one variable.  sm: none / pos / neg / mixsign (n >= 2: the sign of
    ref - ref0 differs between the entries of the one variable).  Array forms: both arrays, only ref an array
    (scalar ref0), only ref0 an array (scalar ref); single entries may be left unscaled (ref=1, ref0=0)."""
    if sm == 'none':
        return None, None

    def mag():
        return round(rng.choice([0.1, 0.5, 2.0, 10.0]) * rng.uniform(0.5, 1.5), 4)

    def r0():
        return rng.choice([0.0, 0.0, round(rng.uniform(-2, 2), 3)])
    if n == 1 or (sm != 'mixsign' and rng.random() < 0.5):
        ref0 = r0()
        return round(ref0 + (-mag() if sm == 'neg' else mag()), 4), ref0
    if sm == 'mixsign':
        signs = [1, -1] + [rng.choice([1, -1]) for _ in range(n - 2)]
        rng.shuffle(signs)
    else:
        signs = [-1 if sm == 'neg' else 1] * n
    form = rng.choice(['both', 'both', 'ref', 'ref0'])
    hole = rng.random() < 0.4           # some entries unscaled next to scaled ones
    if form == 'both':
        ref, ref0 = [], []
        for sg in signs:
            if hole and sg > 0 and rng.random() < 0.5:
                ref.append(1.0)
                ref0.append(0.0)
            else:
                z = r0()
                ref0.append(z)
                ref.append(round(z + sg * mag(), 4))
        return ref, ref0
    if form == 'ref':
        z = 0.0 if hole else r0()
        ref = [1.0 if (hole and z == 0.0 and sg > 0 and rng.random() < 0.5) else round(z + sg * mag(), 4)
               for sg in signs]
        return ref, z
    ref = rng.choice([1.0, round(rng.uniform(-2, 2), 3)])
    return ref, [round(ref - sg * mag(), 4) for sg in signs]


def _factor(v):
    """per-entry ref - ref0 of a variable spec (ones when unscaled)"""
    n = v['size']
    return _arr(v['ref'], n, 1.0) - _arr(v['ref0'], n, 0.0)


def _scale_class(v):
    if v['ref'] is None:
        return 'none'
    f = _factor(v)
    if np.all(f < 0):
        return 'neg'
    return 'mixsign' if np.any(f < 0) else 'pos'


def gen_case(rng, idx):
    ncomp = rng.choice([1, 1, 2])
    level = rng.choice(['group', 'comp']) if ncomp == 1 else 'group'
    scale_mode = rng.choice(['none', 'pos', 'pos', 'neg', 'mixed', 'mixsign', 'mixsign'])
    sizes = [1, 1, 2, 3, 4] if scale_mode != 'mixsign' else [1, 2, 3, 4, 4]
    vars_ = []
    for c in range(ncomp):
        for j in range(rng.choice([1, 1, 2, 3, 4]) if ncomp == 1 else rng.choice([1, 2])):
            vars_.append({'comp': c, 'name': 'v%d' % len(vars_), 'size': rng.choice(sizes)})
    if scale_mode == 'mixsign' and all(v['size'] == 1 for v in vars_):
        rng.choice(vars_)['size'] = rng.choice([2, 3, 4])
    N = sum(v['size'] for v in vars_)
    for v in vars_:
        n = v['size']
        # a size-4 variable may be declared with shape (2, 2): bounds / ref / ref0 arrays are then 2-D
        v['shape'] = [2, 2] if (n == 4 and rng.random() < 0.6) else [n]
        # --- scaling class of this variable
        if scale_mode == 'mixed':
            sm = rng.choice(['none', 'pos', 'neg'] + (['mixsign'] if n > 1 else []))
        elif scale_mode == 'mixsign':
            sm = 'mixsign' if (n > 1 and rng.random() < 0.75) else rng.choice(['none', 'pos', 'neg'])
        else:
            sm = scale_mode
        # --- bounds (per-entry arrays more often next to array scalings; an unbounded variable now and then so
        #     that the offsets of the following variables into the bound arrays matter)
        pats = ['both', 'both', 'both', 'lower', 'upper', 'none', 'array']
        if sm == 'mixsign':
            pats += ['array', 'array', 'lower', 'upper']
        pat = rng.choice(pats)
        lo = hi = None
        if pat in ('both', 'lower'):
            lo = round(rng.uniform(-3, 1), 3)
        if pat in ('both', 'upper'):
            hi = round((lo if lo is not None else rng.uniform(-2, 1)) + rng.uniform(0.3, 4), 3)
        if pat == 'array':
            lo, hi = [], []
            for _ in range(n):
                a = round(rng.uniform(-3, 1), 3)
                b = round(a + rng.uniform(0.3, 4), 3)
                k = rng.random()
                lo.append(a if k < 0.8 else float('-inf'))
                hi.append(b if (k > 0.2 or k >= 0.8) else float('inf'))
            if rng.random() < 0.25:
                hi = None
            elif rng.random() < 0.2:
                lo = None
        v['lower'], v['upper'] = lo, hi
        v['ref'], v['ref0'] = _gen_scaling(rng, n, sm)
        v['scale_class'] = _scale_class(v)
        v['res_ref'] = rng.choice([None, None, round(rng.uniform(0.2, 5), 3)])
    # --- system: diagonally dominant M
    M = [[0.0] * N for _ in range(N)]
    for i in range(N):
        off = 0.0
        for j in range(N):
            if i != j and rng.random() < 0.6:
                M[i][j] = round(rng.uniform(-0.5, 0.5), 3)
                off += abs(M[i][j])
        M[i][i] = round((off + rng.uniform(0.5, 2.0)) * rng.choice([1, 1, -1]), 3)
    kappa = rng.choice([0.0, 0.0, 0.05, 0.3])
    # start point
    start = rng.choice(['interior', 'interior', 'on-bound', 'corner'])
    y0 = []
    for v in vars_:
        for i in range(v['size']):
            lo = _entry(v['lower'], i)
            hi = _entry(v['upper'], i)
            a = lo if np.isfinite(lo) else ((hi - 3.0) if np.isfinite(hi) else -2.0)
            b = hi if np.isfinite(hi) else ((lo + 3.0) if np.isfinite(lo) else 2.0)
            k = rng.random()
            if start == 'corner' or (start == 'on-bound' and k < 0.5):
                val = a if (rng.random() < 0.5 and np.isfinite(lo)) else (b if np.isfinite(hi) else
                                                                      (a if np.isfinite(lo) else 0.5 * (a + b)))
            else:
                val = a + (b - a) * rng.uniform(0.05, 0.95)
            y0.append(round(val, 6) if val not in (lo, hi) else val)
    # target far enough that steps often leave the box
    t = [round(rng.uniform(-6, 6), 3) for _ in range(N)]
    ls = rng.choice(['BoundsEnforceLS', 'ArmijoGoldsteinLS'])
    lsopts = {'bound_enforcement': rng.choice(['vector', 'scalar', 'wall'])}
    if ls == 'ArmijoGoldsteinLS':
        lsopts.update(alpha=rng.choice([1.0, 1.0, 0.7, 0.3]), rho=rng.choice([0.5, 0.25, 0.8]),
                      c=rng.choice([0.1, 0.01, 0.5, 0.9]), maxiter=rng.choice([1, 3, 5]),
                      method=rng.choice(['Armijo', 'Armijo', 'Goldstein']))
    return {'idx': idx, 'ncomp': ncomp, 'level': level, 'vars': vars_, 'M': M, 't': t, 'kappa': kappa,
            'y0': y0, 'start': start, 'ls': ls, 'lsopts': lsopts, 'updates': rng.choice([1, 2, 3])}


def _entry(b, i, default=None):
    if b is None:
        return float('-inf') if default is None else default
    if isinstance(b, (list, tuple)):
        return float(b[i])
    return float(b)


def _arr(b, n, fill):
    if b is None:
        return np.full(n, fill)
    if isinstance(b, (list, tuple)):
        return np.array([float(x) for x in b])
    return np.full(n, float(b))


def structure(case):
    vs = []
    for v in case['vars']:
        def cls(b):
            if b is None:
                return 'none'
            if isinstance(b, list):
                return 'array' + ('+inf' if any(not np.isfinite(float(x)) for x in b) else '')
            return 'scalar'
        f = _factor(v)
        vs.append([v['comp'], v['size'], cls(v['lower']), cls(v['upper']), v['scale_class'],
                   isinstance(v['ref'], list), v['res_ref'] is not None, isinstance(v['ref0'], list),
                   len(v.get('shape', [0])) > 1, [int(x) for x in np.sign(f)] if v['scale_class'] == 'mixsign' else 0,
                   bool(v['ref'] is not None and np.any((_arr(v['ref'], v['size'], 1.0) == 1.0) &
                                                        (_arr(v['ref0'], v['size'], 0.0) == 0.0)) and
                        np.any(f != 1.0))])
    o = dict(case['lsopts'])
    return [case['ncomp'], case['level'], vs, case['kappa'] != 0, case['start'], case['ls'],
            o.get('bound_enforcement'), o.get('alpha'), o.get('method'), o.get('maxiter')]


# ----------------------------------------------------------------------------------------------
# model
# ----------------------------------------------------------------------------------------------
def build(case):
    import openmdao.api as om
    vars_ = case['vars']
    N = sum(v['size'] for v in vars_)
    M = np.array(case['M'], dtype=float).reshape(N, N)
    t = np.array(case['t'], dtype=float)
    kappa = float(case['kappa'])
    offs, o = {}, 0
    for v in vars_:
        offs[v['name']] = slice(o, o + v['size'])
        o += v['size']

    class Aff(om.ImplicitComponent):
        def initialize(self):
            self.options.declare('k', types=int)

        def setup(self):
            k = self.options['k']
            for v in vars_:
                n = v['size']
                shp = tuple(v.get('shape') or [n])
                if v['comp'] == k:
                    kw = {}
                    for key in ('lower', 'upper'):
                        if v[key] is not None:
                            kw[key] = _arr(v[key], n, 0.0).reshape(shp) if isinstance(v[key], list) else v[key]
                    if v['ref'] is not None:
                        for key in ('ref', 'ref0'):
                            kw[key] = np.array(v[key], dtype=float).reshape(shp) if isinstance(v[key], list) \
                                else v[key]
                    if v['res_ref'] is not None:
                        kw['res_ref'] = v['res_ref']
                    self.add_output(v['name'], val=np.ones(shp), **kw)
                else:
                    self.add_input(v['name'], val=np.ones(shp))
            self.declare_partials('*', '*')

        def _full(self, inputs, outputs):
            k = self.options['k']
            y = np.zeros(N, dtype=outputs.asarray().dtype)
            for v in vars_:
                y[offs[v['name']]] = np.ravel((outputs if v['comp'] == k else inputs)[v['name']])
            return y

        def apply_nonlinear(self, inputs, outputs, residuals):
            k = self.options['k']
            y = self._full(inputs, outputs)
            r = M.dot(y) + kappa * y ** 3 - t
            for v in vars_:
                if v['comp'] == k:
                    residuals[v['name']] = r[offs[v['name']]].reshape(tuple(v.get('shape') or [v['size']]))

        def linearize(self, inputs, outputs, partials):
            k = self.options['k']
            y = self._full(inputs, outputs)
            J = M + 3.0 * kappa * np.diag(y ** 2)
            for v in vars_:
                if v['comp'] != k:
                    continue
                for w in vars_:
                    partials[v['name'], w['name']] = J[offs[v['name']], offs[w['name']]]

    p = om.Problem()
    comps = []
    for k in range(case['ncomp']):
        comps.append(p.model.add_subsystem('c%d' % k, Aff(k=k)))
    for v in vars_:
        for k in range(case['ncomp']):
            if k != v['comp']:
                p.model.connect('c%d.%s' % (v['comp'], v['name']), 'c%d.%s' % (k, v['name']))
    ls = getattr(om, case['ls'])()
    for kk, vv in case['lsopts'].items():
        ls.options[kk] = vv
    newton = om.NewtonSolver(solve_subsystems=False, maxiter=1, iprint=-1, atol=1e-300, rtol=1e-300)
    newton.linesearch = ls
    target = p.model if case['level'] == 'group' else comps[0]
    target.nonlinear_solver = newton
    target.linear_solver = om.DirectSolver()
    p.setup()
    p.set_solver_print(-1)
    p._omv_linesearch = ls          # for diagnose_scaled_bounds (classification only)
    return p, offs


def diagnose_scaled_bounds(p, case, lower, upper, ref, ref0, declared):
    """Classification only (never decides a verdict).  Looks at the line search's scaled bound arrays:
    'not-swapped' - they are the plain images (bound - ref0)/(ref - ref0) of the declared bounds also on entries
        whose scaling factor is negative, i.e. scaled lower > scaled upper there because the two were not exchanged;
    'swapped-on-positive' - the entries with a negative factor are right, but entries with a POSITIVE factor hold
        the exchanged images (the exchange was applied to more entries than the negative ones);
    None - any other state of the arrays (correct, or wrong in a different way, or not inspectable), so that a
        different defect keeps the generic scaling-class key."""
    try:
        ls = p._omv_linesearch
        n = lower.size
        L = np.full(n, -np.inf) if ls._lower_bounds is None else np.asarray(ls._lower_bounds, dtype=float)
        U = np.full(n, np.inf) if ls._upper_bounds is None else np.asarray(ls._upper_bounds, dtype=float)
        if L.shape != (n,) or U.shape != (n,):
            return None
        neg = (ref - ref0 < 0) & declared
        pos = (ref - ref0 > 0) & declared
        with np.errstate(all='ignore'):
            img_lo = (lower - ref0) / (ref - ref0)      # image of the declared lower bound (inf if none)
            img_hi = (upper - ref0) / (ref - ref0)      # image of the declared upper bound (inf if none)

        def same(a, b):
            return (a == b) | (np.isfinite(a) & np.isfinite(b) & (np.abs(a - b) <= 1e-12 * (1 + np.abs(b))))
        # unswapped: the array called 'lower' holds the image of the declared lower bound (or nothing, -inf)
        # and the array called 'upper' the image of the declared upper bound (or nothing, +inf)
        uns_lo = same(L, img_lo) | (np.isinf(img_lo) & (L == -np.inf))
        uns_hi = same(U, img_hi) | (np.isinf(img_hi) & (U == np.inf))
        # swapped: 'lower' holds the image of the declared upper bound (or nothing) and vice versa
        swp_lo = same(L, img_hi) | (np.isinf(img_hi) & (L == -np.inf))
        swp_hi = same(U, img_lo) | (np.isinf(img_lo) & (U == np.inf))
        right_neg = same(L, img_hi) & same(U, img_lo)
        right_pos = same(L, img_lo) & same(U, img_hi)
        wrong = neg & ~right_neg
        if wrong.any():
            return 'not-swapped' if np.all(uns_lo[wrong] & uns_hi[wrong]) else None
        wrong = pos & ~right_pos
        if wrong.any() and np.all(swp_lo[wrong] & swp_hi[wrong]):
            return 'swapped-on-positive'
        return None
    except Exception:
        return None


def run_one(case, acc):
    install_hooks(acc)
    vars_ = case['vars']
    N = sum(v['size'] for v in vars_)
    M = np.array(case['M'], dtype=float).reshape(N, N)
    t = np.array(case['t'], dtype=float)
    kappa = float(case['kappa'])
    lower = np.concatenate([_arr(v['lower'], v['size'], -np.inf) for v in vars_])
    upper = np.concatenate([_arr(v['upper'], v['size'], np.inf) for v in vars_])
    ref = np.concatenate([_arr(v['ref'], v['size'], 1.0) for v in vars_])
    ref0 = np.concatenate([_arr(v['ref0'], v['size'], 0.0) for v in vars_])
    res_scale = np.concatenate([np.full(v['size'], 1.0 if v['res_ref'] is None else abs(v['res_ref']))
                                for v in vars_])
    bounded = np.isfinite(lower) | np.isfinite(upper)
    # a variable with a declared bound (even an infinite one) goes through the scaled-bound arrays
    declared = np.concatenate([np.full(v['size'], (v['lower'] is not None) or (v['upper'] is not None))
                               for v in vars_])
    negscale = bool(np.any((ref - ref0 < 0) & declared))
    anyscale = any(v['ref'] is not None for v in vars_)
    # variables with declared bounds whose scaling factor changes sign between their own entries
    dvars = [v for v in vars_ if (v['lower'] is not None) or (v['upper'] is not None)]
    mixvars = [v for v in dvars if _scale_class(v) == 'mixsign']
    scale_cls = 'mixsign' if mixvars else ('neg' if negscale else ('pos' if anyscale else 'none'))
    cells = _cells(vars_, dvars, mixvars)
    meth = case['lsopts']['bound_enforcement']
    alpha = float(case['lsopts'].get('alpha', 1.0))
    # mechanism class first (refined after setup by diagnose_scaled_bounds), then the configuration cell
    mech = 'mixed-sign-array-scale' if mixvars else \
        ('neg-scale(ref<ref0)' if negscale else ('pos-scale' if anyscale else 'no-scale'))
    keybase = '%s:%s:%s' % (mech, case['ls'], meth)
    u0 = np.array(case['y0'], dtype=float)
    if np.any(u0 < lower) or np.any(u0 > upper) or np.any(lower >= upper):
        acc.skip('generator-start-outside-box')
        return
    try:
        p, offs = build(case)
    except Exception as e:
        acc.viol('%s:setup-raises:%s' % (keybase, type(e).__name__), str(e)[:300], case)
        return
    try:
        def names():
            for v in vars_:
                yield 'c%d.%s' % (v['comp'], v['name']), offs[v['name']]
        shapes = {'c%d.%s' % (v['comp'], v['name']): tuple(v.get('shape') or [v['size']]) for v in vars_}
        p.final_setup()
        if negscale:
            diag = diagnose_scaled_bounds(p, case, lower, upper, ref, ref0, declared)
            if diag == 'not-swapped':
                keybase = '%s:%s:%s' % ('scaled-bounds-not-swapped(ref<ref0)', case['ls'], meth)
            elif diag == 'swapped-on-positive':
                keybase = '%s:%s:%s' % ('scaled-bounds-swapped-on-positive-entries(mixed-sign-array-scale)',
                                        case['ls'], meth)
        bad = False
        judged_any = False
        nontrivial = False
        for it in range(case['updates']):
            for nm, sl in names():
                p.set_val(nm, u0[sl].reshape(shapes[nm]))
            D, J = R.newton_step(M, t, kappa, u0)
            cond_s = R.scaled_condition(J, ref - ref0, res_scale)
            if not np.isfinite(cond_s) or cond_s > 1e6 or not np.all(np.isfinite(D)):
                acc.skip('ill-conditioned-scaled-system')
                break
            if np.max(np.abs(R.residual(M, t, kappa, u0))) < 1e-9:
                break                       # converged: Newton will not iterate
            try:
                p.run_model()
            except Exception as e:
                acc.viol('%s:run-raises:%s' % (keybase, type(e).__name__), str(e)[:300], case, new_case=not bad)
                bad = True
                break
            u1 = np.concatenate([np.atleast_1d(p.get_val(nm)).ravel() for nm, _ in names()])
            acc.count('obs:update-judged')
            judged_any = True
            full = u0 + alpha * D
            left = bounded & ((full < lower) | (full > upper))
            if left.any():
                acc.count('obs:full-step-left-box')
                nontrivial = True
                if mixvars:
                    f = ref - ref0
                    for v in mixvars:
                        sl = offs[v['name']]
                        if np.any(left[sl] & (f[sl] > 0)):
                            acc.count('obs:mixsign-var-step-left-box-in-positive-entry')
                        if np.any(left[sl] & (f[sl] < 0)):
                            acc.count('obs:mixsign-var-step-left-box-in-negative-entry')
            if not np.all(np.isfinite(u1)):
                acc.viol('%s:non-finite-output' % keybase, 'outputs after the update: %s [update %d, u0=%s, '
                         'step=%s]' % (u1.tolist(), it, u0.tolist(), D.tolist()), case, new_case=not bad)
                bad = True
                break
            res = R.judge_update(u0, u1, D, lower, upper, ref, ref0, cond_s, alpha=alpha)
            seen = set()
            for obs, i, text in res:
                if obs in seen:
                    continue
                seen.add(obs)
                acc.viol('%s:%s' % (keybase, obs), '%s [update %d, u0=%s]' % (text, it, u0.tolist()), case,
                         new_case=not bad)
                bad = True
            if meth == 'wall' and not res:
                # entries whose full step leaves the box by a clear margin must sit on that bound
                mag = np.abs(u0) + np.abs(ref0) + 2 * np.abs(D) + np.abs(ref) + \
                    np.where(np.isfinite(lower), np.abs(lower), 0) + np.where(np.isfinite(upper), np.abs(upper), 0)
                tau = 1e3 * R.EPS * mag + 8 * N * R.EPS * cond_s * np.max(np.abs(D))
                for i, b in R.wall_expected(u0, D, lower, upper, alpha).items():
                    if abs(full[i] - b) <= 10 * tau[i]:
                        continue
                    acc.count('obs:wall-clamped-entry')
                    if abs(u1[i] - b) > tau[i]:
                        acc.viol('%s:wall-entry-left-the-bound' % keybase,
                                 'entry %d should stay on bound %.17g after clamping, is %.17g' % (i, b, u1[i]),
                                 case, new_case=not bad)
                        bad = True
                        break
            if bad:
                break
            if np.any(u1 < lower) or np.any(u1 > upper):
                u1 = np.minimum(np.maximum(u1, lower), upper)    # round-off only (larger ones were reported)
            u0 = u1
        if judged_any:
            acc.count('cell:%s/%s' % (case['ls'], meth))
            acc.count('cell:scale/%s' % scale_cls)
            for c in cells:
                acc.count(c)
        if bad:
            return
        if judged_any:
            acc.ok(fingerprint(structure(case)), nontrivial=nontrivial,
                   sample=case if case['idx'] % 997 == 0 else None)
        else:
            acc.skip('no-update-performed')
    finally:
        try:
            p.cleanup()
        except Exception:
            pass


def _cells(vars_, dvars, mixvars):
    """Cells of the scaling/bound-layout grid a case visits (evidence only)."""
    cells = set()

    def holes(v):       # one-sided bound or per-entry +-inf: some entry has only one finite bound
        lo, hi = _arr(v['lower'], v['size'], -np.inf), _arr(v['upper'], v['size'], np.inf)
        return bool(np.any(np.isfinite(lo) != np.isfinite(hi)))
    for v in dvars:
        f = _factor(v)
        if isinstance(v['ref'], list) and not isinstance(v['ref0'], list):
            cells.add('cell:scale/array-ref+scalar-ref0')
        if isinstance(v['ref0'], list) and not isinstance(v['ref'], list):
            cells.add('cell:scale/scalar-ref+array-ref0')
        if isinstance(v['ref'], list) and isinstance(v['ref0'], list):
            cells.add('cell:scale/array-ref+array-ref0')
        if v['ref'] is not None and v['size'] > 1:
            un = (_arr(v['ref'], v['size'], 1.0) == 1.0) & (_arr(v['ref0'], v['size'], 0.0) == 0.0)
            if un.any() and not un.all():
                cells.add('cell:scale/partly-unscaled-array')
        if len(v.get('shape') or [0]) > 1 and (isinstance(v['ref'], list) or isinstance(v['lower'], list) or
                                               isinstance(v['upper'], list)):
            cells.add('cell:shape/2d-array-bounds-or-scaling')
        if np.all(f < 0) and holes(v):
            cells.add('cell:neg/one-sided-entry')
    for v in mixvars:
        if holes(v):
            cells.add('cell:mixsign/one-sided-entry')
        if v['lower'] is None or v['upper'] is None:
            cells.add('cell:mixsign/one-bound-undeclared')
        if isinstance(v['lower'], list) or isinstance(v['upper'], list):
            cells.add('cell:mixsign/array-bounds')
        else:
            cells.add('cell:mixsign/scalar-bounds')
    pats = set(tuple(np.sign(_factor(v)).astype(int)) if v['size'] > 1 else int(np.sign(_factor(v))[0])
               for v in dvars)
    if len(dvars) > 1 and mixvars and len(pats) > 1:
        cells.add('cell:mixsign/other-bounded-var-with-different-sign-pattern')
    seen_unbounded = False
    for v in vars_:
        if v['lower'] is None and v['upper'] is None:
            seen_unbounded = True
        elif seen_unbounded:
            cells.add('cell:layout/bounded-var-after-unbounded-var')
            if _scale_class(v) == 'mixsign':
                cells.add('cell:layout/mixsign-var-after-unbounded-var')
    return sorted(cells)


# ----------------------------------------------------------------------------------------------
def shards(tier, seed):
    n = 16 if tier == 'quick' else 48
    per = 60 if tier == 'quick' else 450
    return [{'seed': seed * 10007 + k, 'n': per} for k in range(n)]


def run_shard(shard, acc):
    rng = random.Random(shard['seed'])
    for i in range(shard['n']):
        case = gen_case(rng, i)
        case['seed'] = shard['seed']
        try:
            run_one(case, acc)
        except Exception as e:      # harness/oracle trouble: surface it as a violation with the case attached
            acc.viol('harness-error:%s' % type(e).__name__, str(e)[:300], case)


def run_case(case, acc):
    run_one(case, acc)


def coverage_extra(tier, agg):
    return {'exhaustive': False,
            'exhaustive_subspace': 'none (random exploration); every (line search x enforcement) cell and every '
                                   'scaling class is required to be visited'}
