"""C29 - Wrapped input files parse back to the values written.

Monitor: round trip through the real classes.  A random template file is written to disk, ONE value
(scalar, 1-D array - exact / shorter / longer than the template, several rows -, or 2-D array) is put into
it with InputFileGenerator.transfer_var / transfer_array / transfer_2Darray relative to a random anchor,
the generated file is written with generate(), and
  (1) the generated text is compared with the template token by token with an own tokenizer: only the
      targeted fields may differ, separators and the number of lines must be unchanged;
  (2) FileParser (same delimiters, same anchor) reads the location back with transfer_var /
      transfer_keyvar / transfer_array / transfer_2Darray and the result is compared with the value written:
      ints and words exactly (value and kind), floats to 16 significant digits, inf/-inf/nan identically.
Additionally (parser half of the special-float round trip, which the writer cannot reach on the unchanged
tree): a token that FileParser itself turns into a float must be the float Python reads from that token.

Call sequences (part 'seq', generator and location model in omv/gen/c29_seq.py): record decks whose lines carry the
anchor text several times ('GRID 3 GRID_X 0.0', 'x = x0', self-overlapping and regex-special anchors), stepped through
with 2-5 [reset_anchor()] mark_anchor(text, n) transfer_var(...) steps (n = 1, 2, 3, -1, -2, -3, non-existent; from a
fresh and from an anchored state; same / other anchor text; anchors on the first / last line).  The SAME calls are
applied to InputFileGenerator and, on the generated file, to FileParser (mark_anchor of the two classes must agree):
  (3) every step changed its own field on exactly one line, and that line is admissible for the call under the
      documentation (own model; where the documentation leaves room both readings are admissible);
  (4) the parser reads every value back from (row, field) after the same calls; nothing else in the file changed;
  (5) an occurrence that does not exist raises RuntimeError in both classes.

Tolerance for floats: the writer documents 16 significant digits ('%.16g'): relative rounding error
<= 0.5e-15, reading the decimal back adds <= 2**-53  ->  |read - v| <= 6.2e-16 |v| (+ one denormal ulp).
numpy.float32 values are held to float32 precision only (np.float32(read) == v).
"""
import math
import random

import numpy as np

from omv.core import fingerprint
from omv.gen import c29_seq as SQ

PROPERTY = 'C29'
LEVEL = 'exploration'
TECHNIQUE = 'runtime monitoring: write/generate/parse round trip + token diff of template vs generated file'
RULE = ('random templates (4-10 lines: text, anchor and data lines; 5 delimiter sets: blanks, blanks+tabs, comma, '
        '"=", mixed; optional end-of-line comments; with/without final newline) x anchor (none / n-th / n-th from '
        'the end, row offsets of both signs) x operation (var, keyvar, array exact/shorter/longer, multi-row '
        'array, 2-D array) x value class (ints of both signs and sizes, numpy ints, integer-valued floats, '
        'fractions, exponent forms with and without decimal point of both signs, huge, denormal, -0.0, inf, '
        '-inf, nan, float32, words, words starting with Inf/NaN/nan); plus call sequences: random record decks '
        '(3-9 lines of alternating label / placeholder tokens, anchor text 1-3 times per line and several times per '
        'token: keyword that is prefix / suffix / double of other labels, one-letter anchors, regex-special and '
        'self-overlapping anchors, a second anchor text on the same or other lines) x 2-5 steps [reset_anchor] '
        'mark_anchor(text, 1|2|3|-1|-2|-3|missing) transfer_var(value, row -2..2, own field) applied identically to '
        'generator and parser; distinct = distinct (operation, delimiters, anchor kind, row sign, value classes, '
        'template shape) resp. (delimiters, anchor family, deck shape, classes of all steps, value classes); '
        'non-trivial = every judged case (a value was written and read back)')
LEVEL_TEXT = ('each generated (template, location, value) was pushed through the real writer and the real parser '
              'and compared with the value written and with the untouched rest of the template; value classes '
              'are enumerated by construction, templates are random')
ASSUMPTIONS = ['Python float()/int() of a token is the reference reading of that token',
               'values contain no delimiter characters; string values are words [A-Za-z][A-Za-z0-9_]* (a string '
               'that looks like a number is legitimately read back as a number and is not generated); bools are '
               'not generated (the property lists int, float, string)',
               'template fields are plain ints, floats with a decimal point and words that do not start with '
               'Inf/NaN spellings, so that field numbering of untouched fields is unambiguous',
               'arrays longer than the template are only generated when the array ends at the end of its line '
               '(the writer documents appending at the end of the line) and with a separator that is a delimiter',
               'round-trip part: anchors are located after reset_anchor() as the n-th (or n-th from the end) line '
               'containing the anchor text; full-line comment removal and "columns" mode are not generated (they '
               'renumber rows/columns by design)',
               'call sequences: a forward mark_anchor from an anchored state finds the n-th line BELOW the current '
               'one; if the current line contains the text other than exactly once as the anchor just marked, the '
               'reading that counts the current line first is admitted too; a reverse search counts from the end '
               'of the file, and when anchored with the text on the last line the reading that skips the last line '
               '(what both classes do, contrary to "always start at the end of the file") is admitted too - in these '
               'cases only generator/parser agreement, the landing on an admissible line and the untouched rest '
               'are demanded',
               'call sequences: written values never contain an anchor text and never equal the placeholder they '
               'replace; labels consist of characters the parser documents as text for the delimiter set',
               '-0.0 is compared as equal to 0.0 (sign of zero is not demanded)']
MIN_JUDGED = {'quick': 4500, 'thorough': 85000}
REQUIRED_COUNTERS = ['obs:write:var', 'obs:write:array', 'obs:write:2darray', 'obs:read:transfer_var',
                     'obs:read:transfer_keyvar', 'obs:read:transfer_array', 'obs:read:transfer_2Darray',
                     'obs:textdiff', 'obs:class:int', 'obs:class:float-int-valued', 'obs:class:float-frac',
                     'obs:class:float-exp-dot', 'obs:class:float-pos-exp-nodot', 'obs:class:float-neg-exp-nodot',
                     'obs:class:float-inf', 'obs:class:float-neginf', 'obs:class:float-nan',
                     'obs:class:str-word', 'obs:array:exact', 'obs:array:longer', 'obs:array:shorter',
                     'obs:array:multirow', 'obs:anchor:forward', 'obs:anchor:backward', 'obs:anchor:none',
                     'obs:delims:ws', 'obs:delims:comma', 'obs:delims:eq', 'obs:delims:mix', 'obs:delims:ws-tab',
                     'obs:parse-only', 'obs:seq', 'obs:seq:step:fresh-fwd', 'obs:seq:step:fresh-bwd',
                     'obs:seq:step:anchored-fwd-same-cur-1', 'obs:seq:step:anchored-fwd-same-cur-multi',
                     'obs:seq:step:anchored-fwd-other-cur-0', 'obs:seq:step:anchored-fwd-other-cur-1',
                     'obs:seq:step:anchored-fwd-other-cur-multi', 'obs:seq:step:anchored-bwd-same-last-0',
                     'obs:seq:step:anchored-bwd-same-last-has', 'obs:seq:step:anchored-bwd-other-last-0',
                     'obs:seq:step:anchored-bwd-other-last-has', 'obs:seq:family:prefix', 'obs:seq:family:short',
                     'obs:seq:family:keyeq', 'obs:seq:family:regex', 'obs:seq:family:overlap',
                     'obs:seq:family:plain', 'obs:seq:anchor-first-line', 'obs:seq:anchor-last-line',
                     'obs:seq:missing-anchor', 'obs:seq:row-offset-nonzero',
                     'obs:seq:step-with-two-admissible-readings']
SHARD_TIMEOUT = {'quick': 600, 'thorough': 2400}

DELIMS = {
    'ws': dict(w=None, r=None, chars=' ', seps=[' ', '  ', '   '], asep=' '),
    'ws-tab': dict(w=' \t', r=' \t', chars=' \t', seps=[' ', '\t', ' \t'], asep=' '),
    'comma': dict(w=', ', r=', ', chars=', ', seps=[', ', ',', ' , '], asep=', '),
    'eq': dict(w=' =', r=' =', chars=' =', seps=[' = ', '=', ' '], asep=' '),
    'mix': dict(w=', =', r=', =', chars=', =', seps=[', ', '=', ' = ', ' '], asep=', '),
}
ANCHORS = ['SEC_A', 'SEC_B', 'INPUT']
WORDS = ['abc', 'x1', 'hello_world', 'Z', 'e5', 'D2', 'title', 'mesh', 'alpha_2']
SPECIAL_PREFIX_WORDS = ['Information', 'Inflow', 'nanotube', 'NaNs']
PLACEHOLDERS = ['0', '0.0', '1.5', 'xx', '7', 'abc', '-2', '3.25', 'val']
TEXTWORDS = ['this', 'is', 'a', 'comment', 'line', 'of', 'the', 'deck', 'v2', 'data', 'block']


# ----------------------------------------------------------------------------------------------
# values  <->  JSON
# ----------------------------------------------------------------------------------------------
def enc_val(v):
    if isinstance(v, np.ndarray):
        return {'nd': [enc_val(x) for x in v.ravel()], 'shape': list(v.shape), 'dtype': str(v.dtype)}
    if isinstance(v, list):
        return {'list': [enc_val(x) for x in v]}
    if isinstance(v, np.float32):
        return {'f32': float(v).hex()}
    if isinstance(v, np.float64):
        return {'f64': float(v).hex()}
    if isinstance(v, np.integer):
        return {'npint': int(v)}
    if isinstance(v, float):
        return {'f': v.hex()}
    if isinstance(v, int):
        return {'i': v}
    return {'s': v}


def dec_val(j):
    if 'nd' in j:
        dt = np.dtype(j['dtype'])
        flat = [dec_val(x) for x in j['nd']]
        return np.array(flat, dtype=dt).reshape(j['shape'])
    if 'list' in j:
        return [dec_val(x) for x in j['list']]
    if 'f32' in j:
        return np.float32(float.fromhex(j['f32']))
    if 'f64' in j:
        return np.float64(float.fromhex(j['f64']))
    if 'npint' in j:
        return np.int64(j['npint'])
    if 'f' in j:
        return float.fromhex(j['f'])
    if 'i' in j:
        return j['i']
    return j['s']


def vclass(v, appended=False):
    """Input class of one scalar value (names the mechanism, never the value).

    appended: the element lies beyond the template and is therefore written with str() (shortest repr)
    instead of the '%.16g' format."""
    if isinstance(v, str):
        return 'str-special-prefix' if v in SPECIAL_PREFIX_WORDS else 'str-word'
    if isinstance(v, np.float32):
        return 'np-float32'
    if isinstance(v, (int, np.integer)):
        return 'int'
    v = float(v)
    if math.isnan(v):
        return 'float-nan'
    if math.isinf(v):
        return 'float-inf' if v > 0 else 'float-neginf'
    if v == 0 or (abs(v) < 1e16 and v == int(v)):
        return 'float-int-valued'
    if abs(v) >= 1e16:
        return 'float-huge'
    s = '%.16g' % v
    if 'e' in s:
        mant = s.split('e')[0]
        if '.' in mant:
            r = repr(v)
            if appended and v < 0 and 'e' in r and '.' not in r.split('e')[0]:
                return 'float-neg-exp-nodot-in-repr'
            return 'float-exp-dot'
        return 'float-neg-exp-nodot' if v < 0 else 'float-pos-exp-nodot'
    return 'float-frac'


def gen_scalar(rng, numeric_only=False, allow_special=True):
    if not numeric_only and rng.random() < 0.12:
        return rng.choice(SPECIAL_PREFIX_WORDS) if rng.random() < 0.2 else rng.choice(WORDS)
    r = rng.random()
    if r < 0.14:
        return rng.choice([0, 1, 7, -3, 42, -100000, 123456789012345678901234, -99])
    if r < 0.18:
        return np.int64(rng.randrange(-1000, 1000))
    if r < 0.30:
        return float(rng.randrange(-1000, 1000))                       # '%.1f' path
    if r < 0.45:
        return rng.choice([-1.0, 1.0]) * rng.uniform(0.001, 1000.0)     # plain fraction
    if r < 0.55:
        return rng.choice([-1.0, 1.0]) * rng.uniform(1.0, 10.0) * 10.0 ** rng.randrange(-300, -5)
    if r < 0.65:
        return float('%de-%d' % (rng.randrange(1, 10), rng.randrange(5, 300)))      # 3e-07
    if r < 0.75:
        return -float('%de-%d' % (rng.randrange(1, 10), rng.randrange(5, 300)))     # -3e-07
    if r < 0.79:
        return rng.choice([-1.0, 1.0]) * rng.uniform(1.0, 10.0) * 10.0 ** rng.randrange(16, 300)
    if r < 0.82:
        return rng.choice([5e-324, -5e-324, 2.2250738585072014e-308, 1e-310, -0.0, 0.0, 0.1, 1.0 / 3.0,
                           1.7976931348623157e308])
    if r < 0.86:
        return np.float64(rng.uniform(-10, 10))
    if r < 0.89:
        return np.float32(rng.choice([0.1, 1.5, -2.75, 3.0, 1e-8, 123456.7]))
    if allow_special and r < 0.95:
        return rng.choice([float('inf'), float('-inf'), float('nan')])
    if numeric_only:
        return rng.uniform(-5, 5)
    if rng.random() < 0.15:
        return rng.choice(SPECIAL_PREFIX_WORDS)
    return rng.choice(WORDS)


# ----------------------------------------------------------------------------------------------
# own tokenizer / template builder
# ----------------------------------------------------------------------------------------------
def tokenize(line, chars):
    """-> (tokens, separators) with len(separators) == len(tokens) + 1."""
    toks, seps = [], ['']
    cur = ''
    for ch in line:
        if ch in chars or ch == '\n':
            if cur:
                toks.append(cur)
                seps.append('')
                cur = ''
            seps[-1] += ch
        else:
            cur += ch
    if cur:
        toks.append(cur)
        seps.append('')
    return toks, seps


def _join(rng, fields, mode, lead=True):
    seps = DELIMS[mode]['seps']
    s = fields[0]
    for f in fields[1:]:
        s += rng.choice(seps) + f
    if lead and rng.random() < 0.3:
        s = ' ' * rng.randrange(1, 4) + s
    return s


def gen_case(rng):
    mode = rng.choice(list(DELIMS))
    op = rng.choice(['var', 'var', 'var', 'keyvar', 'array', 'array', 'array-rows', '2d'])
    eolc = rng.random() < 0.15
    nlines = rng.randrange(4, 11)
    # target block rows
    nrows = 1
    if op == 'array-rows':
        nrows = rng.randrange(2, 4)
    elif op == '2d':
        nrows = rng.randrange(1, 4)
    L = rng.randrange(0, nlines - nrows + 1)
    lines = []
    kinds = []
    for i in range(nlines):
        if L <= i < L + nrows:
            kinds.append('target')
            lines.append(None)
            continue
        r = rng.random()
        if r < 0.35:
            kinds.append('anchor')
            a = rng.choice(ANCHORS)
            extra = [rng.choice(TEXTWORDS) for _ in range(rng.randrange(0, 3))]
            pos = rng.randrange(0, len(extra) + 1)
            lines.append(' '.join(extra[:pos] + [a] + extra[pos:]))
        elif r < 0.6:
            kinds.append('text')
            lines.append(' '.join(rng.choice(TEXTWORDS) for _ in range(rng.randrange(1, 6))))
        else:
            kinds.append('data')
            lines.append(_join(rng, [rng.choice(PLACEHOLDERS) for _ in range(rng.randrange(1, 6))], mode))
    case = {'kind': 'roundtrip', 'mode': mode, 'op': op, 'eolc': eolc, 'final_newline': rng.random() < 0.8}
    # ---- target lines
    ncols = rng.randrange(1, 7)
    if op == '2d':
        ncols = rng.randrange(2, 7)
    tl = []
    for k in range(nrows):
        m = ncols if op == '2d' else rng.randrange(1, 7)
        tl.append([rng.choice(PLACEHOLDERS) for _ in range(m)])
    key = None
    if op == 'keyvar':
        key = rng.choice(['key_a', 'key_b', 'PARAM'])
        tl[0] = [key] + tl[0]
        if rng.random() < 0.3:          # the same key on another line (before or after) -> occurrence matters
            for i in range(nlines):
                if kinds[i] == 'data' and rng.random() < 0.5:
                    lines[i] = _join(rng, [key] + [rng.choice(PLACEHOLDERS) for _ in range(rng.randrange(1, 4))], mode)
    comment_ok = op in ('var', 'keyvar', '2d')      # array writers run to the end of the line by design
    for k in range(nrows):
        s = _join(rng, tl[k], mode)
        if eolc and comment_ok and rng.random() < 0.6:
            s += '  # ' + rng.choice(TEXTWORDS)
        lines[L + k] = s
    case['lines'] = lines
    # ---- location
    if op == 'keyvar':
        with_key = [i for i, ln in enumerate(lines) if key in ln]
        rowoffset = 0
        occ_line = L
        n_before = sum(1 for i in with_key if i <= occ_line)
        if rng.random() < 0.7:
            occ = n_before
        else:
            occ = -(len(with_key) - n_before + 1)
        case.update(key=key, occurrence=occ, rowoffset=rowoffset, row=L)
        field = rng.randrange(2, len(tl[0]) + 1)
        case['field'] = field
        case['value'] = enc_val(gen_scalar(rng))
        return case
    anchor_lines = [i for i, k in enumerate(kinds) if k == 'anchor']
    if anchor_lines and rng.random() < 0.8:
        A = rng.choice(anchor_lines)
        text = next(a for a in ANCHORS if a in lines[A])
        having = [i for i, ln in enumerate(lines) if text in ln]
        n_before = sum(1 for i in having if i <= A)
        if rng.random() < 0.65:
            occ = n_before
        else:
            occ = -(len(having) - n_before + 1)
        case['anchor'] = [text, occ]
        case['row'] = L - A
    else:
        case['anchor'] = None
        case['row'] = L
    if op == 'var':
        case['field'] = rng.randrange(1, len(tl[0]) + 1)
        case['value'] = enc_val(gen_scalar(rng))
    elif op == 'array':
        m = len(tl[0])
        fs = rng.randrange(1, m + 1)
        variant = rng.choice(['exact', 'exact', 'longer', 'shorter'])
        if variant == 'longer':
            fe = m
            n = (fe - fs + 1) + rng.randrange(1, 4)
        elif variant == 'shorter' and m - fs + 1 >= 2:
            fe = rng.randrange(fs + 1, m + 1)
            n = rng.randrange(1, fe - fs + 1)
        else:
            variant = 'exact'
            fe = rng.randrange(fs, m + 1)
            n = fe - fs + 1
        case.update(field_start=fs, field_end=fe, variant=variant)
        case['value'] = enc_val(gen_array(rng, n))
    elif op == 'array-rows':
        fs = rng.randrange(1, len(tl[0]) + 1)
        fe = rng.randrange(1, len(tl[-1]) + 1)
        n = (len(tl[0]) - fs + 1) + sum(len(t) for t in tl[1:-1]) + fe
        case.update(field_start=fs, field_end=fe, nrows=nrows, variant='exact')
        case['value'] = enc_val(gen_array(rng, n))
    else:
        fs = rng.randrange(1, ncols + 1)
        fe = rng.randrange(fs, ncols + 1)
        arr = gen_array(rng, nrows * (fe - fs + 1), numeric_only=True, as_nd=True)
        case.update(field_start=fs, field_end=fe, nrows=nrows)
        case['value'] = enc_val(np.asarray(arr).reshape(nrows, fe - fs + 1))
    return case


def gen_array(rng, n, numeric_only=True, as_nd=False):
    r = rng.random()
    if r < 0.2 and not as_nd:
        return [float(gen_num(rng)) for _ in range(n)]                 # python list of floats
    if r < 0.35:
        return np.array([rng.randrange(-50, 50) for _ in range(n)], dtype=int)
    if r < 0.42:
        return np.array([rng.choice([0.5, 1.5, -2.75, 0.1]) for _ in range(n)], dtype=np.float32)
    special = rng.random() < 0.12
    out = []
    for _ in range(n):
        v = gen_num(rng)
        if special and rng.random() < 0.4:
            v = rng.choice([float('inf'), float('-inf'), float('nan')])
        out.append(float(v))
    return np.array(out, dtype=float)


def gen_num(rng):
    while True:
        v = gen_scalar(rng, numeric_only=True, allow_special=False)
        if not isinstance(v, str):
            return v


# ----------------------------------------------------------------------------------------------
# comparison of one value
# ----------------------------------------------------------------------------------------------
def same_value(got, v):
    """-> None if equal in the sense of the property, else a short reason."""
    if isinstance(v, str):
        return None if (isinstance(got, str) and got == v) else 'read %r' % (got,)
    if isinstance(got, str):
        return 'read the string %r' % got
    if isinstance(v, (int, np.integer)) and not isinstance(v, bool):
        if isinstance(got, (int, np.integer, float, np.floating)) and got == int(v):
            return None
        return 'read %r' % (got,)
    if isinstance(v, np.float32):
        try:
            return None if np.float32(got) == v else 'read %r' % (got,)
        except Exception:
            return 'read %r' % (got,)
    v = float(v)
    try:
        g = float(got)
    except Exception:
        return 'read %r' % (got,)
    if math.isnan(v):
        return None if math.isnan(g) else 'read %r' % (got,)
    if math.isinf(v):
        return None if g == v else 'read %r' % (got,)
    if math.isnan(g) or abs(g - v) > 6.2e-16 * abs(v) + 5e-324:
        return 'read %r' % (got,)
    return None


# ----------------------------------------------------------------------------------------------
# one round trip
# ----------------------------------------------------------------------------------------------
def _model_anchor_row(lines, anchor):
    if anchor is None:
        return 0
    text, occ = anchor
    having = [i for i, ln in enumerate(lines) if text in ln]
    return having[occ - 1] if occ > 0 else having[occ]


def _roundtrip(case, acc):
    """One write/generate/parse round trip -> (fingerprint, [(key, what), ...])."""
    viols = []

    def V(key, what, case_=None, fp=None, new_case=True):
        viols.append((key, what))

    from openmdao.utils.file_wrap import InputFileGenerator, FileParser
    mode = case['mode']
    D = DELIMS[mode]
    op = case['op']
    lines = case['lines']
    value = dec_val(case['value'])
    chars = D['chars']
    template = '\n'.join(lines) + ('\n' if case['final_newline'] else '')
    tname, oname = 'c29_template.txt', 'c29_generated.txt'
    with open(tname, 'w') as f:
        f.write(template)
    acc.count('obs:delims:' + mode)
    flat = list(np.ravel(value)) if isinstance(value, (np.ndarray, list)) else [value]
    navail = (case['field_end'] - case['field_start'] + 1) if op == 'array' else len(flat)
    classes = [vclass(x, appended=(i >= navail)) for i, x in enumerate(flat)]
    for c in set(classes):
        acc.count('obs:class:' + c)
    # --- independent location model
    if op == 'keyvar':
        anchor = [case['key'], case['occurrence']]
        arow = _model_anchor_row(lines, anchor)
        L = arow
        acc.count('obs:anchor:' + ('forward' if case['occurrence'] > 0 else 'backward'))
    else:
        anchor = case['anchor']
        arow = _model_anchor_row(lines, anchor)
        L = arow + case['row']
        acc.count('obs:anchor:' + ('none' if anchor is None else ('forward' if anchor[1] > 0 else 'backward')))
    fp = fingerprint([op, mode, case['eolc'], case['final_newline'],
                      None if anchor is None else (anchor[1] > 0), (case['row'] > 0) - (case['row'] < 0),
                      sorted(set(classes)), case.get('variant'), len(lines), len(tokenize(lines[L], chars)[0]),
                      np.shape(value) if isinstance(value, np.ndarray) else type(value).__name__])
    opname = {'var': 'var', 'keyvar': 'keyvar', 'array': 'array', 'array-rows': 'array-multirow', '2d': '2darray'}[op]
    if op == 'array':
        opname += ':' + case['variant']
        acc.count('obs:array:' + case['variant'])
    if op == 'array-rows':
        acc.count('obs:array:multirow')

    specials = ('float-nan', 'float-inf', 'float-neginf')
    culprits = specials + ('float-neg-exp-nodot', 'float-neg-exp-nodot-in-repr', 'str-special-prefix')

    def worst_class(default=None):
        # arrays: one unreadable element spoils its neighbours (string dtype, swallowed row) - name the
        # first element of a class that is known to be able to do that, else the element that differs
        for c in classes:
            if c in culprits:
                return c
        if default is not None:
            return default
        return classes[0] if len(set(classes)) == 1 else 'mixed'

    # --- write ------------------------------------------------------------------------------
    try:
        gen = InputFileGenerator()
        gen.set_template_file(tname)
        gen.set_generated_file(oname)
        if D['w'] is not None:
            gen.set_delimiters(D['w'])
        gen.reset_anchor()
        if anchor is not None:
            gen.mark_anchor(anchor[0], anchor[1])
    except Exception as e:
        V('setup:writer-raises-%s:%s' % (type(e).__name__, opname.split(':')[0]), str(e)[:200], case)
        return fp, viols
    try:
        if op in ('var', 'keyvar'):
            acc.count('obs:write:var')
            gen.transfer_var(value, 0 if op == 'keyvar' else case['row'], case['field'])
        elif op == 'array':
            acc.count('obs:write:array')
            gen.transfer_array(value, case['row'], case['field_start'], case['field_end'], sep=D['asep'])
        elif op == 'array-rows':
            acc.count('obs:write:array')
            gen.transfer_array(value, case['row'], case['field_start'], case['field_end'],
                               row_end=case['row'] + case['nrows'] - 1, sep=D['asep'])
        else:
            acc.count('obs:write:2darray')
            gen.transfer_2Darray(value, case['row'], case['row'] + case['nrows'] - 1, case['field_start'],
                                 case['field_end'])
        gen.generate()
    except Exception as e:
        V('%s:writer-raises-%s:%s' % (next((c for c in classes if c in specials), worst_class()),
                                             type(e).__name__, opname),
                 'writing %s raised %s: %s' % (_vshort(value), type(e).__name__, str(e)[:160]), case, fp=fp)
        return fp, viols
    with open(oname) as f:
        text = f.read()
    bad = False
    # --- (1) token diff ---------------------------------------------------------------------
    acc.count('obs:textdiff')
    tlines = template.split('\n')
    glines = text.split('\n')
    targets = {}           # line index -> set of token indices that may change
    appended = 0
    if op in ('var', 'keyvar'):
        targets[L] = {case['field'] - 1}
    elif op == 'array':
        fs, fe = case['field_start'], case['field_end']
        n = len(flat)
        k = min(n, fe - fs + 1)
        targets[L] = set(range(fs - 1, fs - 1 + k))
        appended = max(0, n - (fe - fs + 1))
    elif op == 'array-rows':
        for r in range(case['nrows']):
            m = len(tokenize(lines[L + r], chars)[0])
            if r == 0:
                targets[L + r] = set(range(case['field_start'] - 1, m))
            elif r == case['nrows'] - 1:
                targets[L + r] = set(range(0, case['field_end']))
            else:
                targets[L + r] = set(range(m))
    else:
        for r in range(case['nrows']):
            targets[L + r] = set(range(case['field_start'] - 1, case['field_end']))
    if appended and len(glines) == len(tlines) - 1 and L == len(lines) - 1 and case['final_newline']:
        # only the newline that ends the file was dropped: no field is disturbed
        acc.count('note:final-newline-dropped-by-append')
        glines.append('')
    if len(glines) != len(tlines):
        key = '%s:line-count-changed:%s' % (worst_class(), opname)
        if appended and len(glines) == len(tlines) - 1:
            key = 'array-longer-than-template:line-terminator-lost-following-line-merged'
        V(key, 'template has %d lines, generated file %d; target line became %r' %
                 (len(tlines), len(glines), glines[L] if L < len(glines) else None), case, fp=fp)
        return fp, viols          # rows below are renumbered: nothing else can be located any more
    else:
        for i, (tl_, gl_) in enumerate(zip(tlines, glines)):
            tt, ts = tokenize(tl_, chars)
            gt, gs = tokenize(gl_, chars)
            tg = targets.get(i, set())
            napp = appended if i == L else 0
            ok = len(gt) == len(tt) + napp
            if ok:
                ok = all(gt[j] == tt[j] for j in range(len(tt)) if j not in tg)
                nsep = len(tt) if napp else len(ts)     # trailing blanks are documented to be stripped on append
                ok = ok and all(gs[j] == ts[j] for j in range(nsep))
            if not ok:
                kind = 'target-line-other-field-changed' if i in targets else 'other-line-changed'
                V('%s:%s:%s' % (worst_class(), kind, opname),
                         'line %d: template %r -> generated %r (fields allowed to change: %s)' %
                         (i, tl_, gl_, sorted(tg)), case, fp=fp, new_case=not bad)
                bad = True
                break
    # --- (2) read back ----------------------------------------------------------------------
    try:
        par = FileParser(end_of_line_comment_char='#') if case['eolc'] else FileParser()
        if D['r'] is not None:
            par.set_delimiters(D['r'])
        par.set_file(oname)
        par.reset_anchor()
        if op != 'keyvar' and anchor is not None:
            par.mark_anchor(anchor[0], anchor[1])
    except Exception as e:
        V('setup:reader-raises-%s:%s' % (type(e).__name__, opname.split(':')[0]), str(e)[:200], case,
                 fp=fp, new_case=not bad)
        return fp, viols
    try:
        if op == 'var':
            reader = 'transfer_var'
            got = par.transfer_var(case['row'], case['field'])
        elif op == 'keyvar':
            reader = 'transfer_keyvar'
            got = par.transfer_keyvar(case['key'], case['field'] - 1, case['occurrence'], case['rowoffset'])
        elif op == 'array':
            reader = 'transfer_array'
            got = par.transfer_array(case['row'], case['field_start'], fieldend=case['field_start'] + len(flat) - 1)
        elif op == 'array-rows':
            reader = 'transfer_array'
            got = par.transfer_array(case['row'], case['field_start'], case['row'] + case['nrows'] - 1,
                                     case['field_end'])
        else:
            reader = 'transfer_2Darray'
            got = par.transfer_2Darray(case['row'], case['field_start'], case['row'] + case['nrows'] - 1,
                                       case['field_end'])
        acc.count('obs:read:' + reader)
    except Exception as e:
        V('%s:reader-raises-%s:%s' % (worst_class(), type(e).__name__, opname),
                 'wrote %s, generated target line %r, reading raised %s: %s' %
                 (_vshort(value), glines[L] if L < len(glines) else None, type(e).__name__, str(e)[:120]),
                 case, fp=fp, new_case=not bad)
        return fp, viols
    if op in ('var', 'keyvar'):
        why = same_value(got, value)
        if why:
            V('%s:value-differs:%s' % (classes[0], opname), 'wrote %s as %r, %s' %
                     (_vshort(value), glines[L] if L < len(glines) else None, why), case, fp=fp, new_case=not bad)
            bad = True
    else:
        g = np.asarray(got)
        want_shape = np.shape(value) if op == '2d' else (len(flat),)
        if g.shape != tuple(want_shape):
            V('%s:shape-differs:%s' % (worst_class(), opname), 'wrote %s, target line %r, read back shape %s: %r'
                     % (_vshort(value), glines[L] if L < len(glines) else None, g.shape, g.tolist()[:8]), case,
                     fp=fp, new_case=not bad)
            bad = True
        else:
            for x, y, c in zip(g.ravel().tolist(), flat, classes):
                why = same_value(x, y)
                if why:
                    V('%s:value-differs:%s' % (worst_class(c), opname), 'element %s written in %r: %s' %
                             (_vshort(y), glines[L] if L < len(glines) else None, why), case, fp=fp, new_case=not bad)
                    bad = True
                    break
    return fp, viols


class _NullAcc(object):
    def count(self, name, n=1):
        pass


def judge_roundtrip(case, acc):
    fp, viols = _roundtrip(case, acc)
    shown = case
    if viols and case['op'] in ('array', 'array-rows', '2d'):
        # differential attribution: an unreadable element (inf/nan, '-3e-07', ...) spoils its neighbours, so such
        # a case is keyed by that element's class - but only if the same case WITHOUT those elements is clean;
        # otherwise the discrepancy has another cause and is reported under the keys of the cleaned case
        value = dec_val(case['value'])
        flat = list(np.ravel(value))
        navail = (case['field_end'] - case['field_start'] + 1) if case['op'] == 'array' else len(flat)
        cls = [vclass(x, appended=(i >= navail)) for i, x in enumerate(flat)]
        culprit = ('float-nan', 'float-inf', 'float-neginf', 'float-neg-exp-nodot', 'float-neg-exp-nodot-in-repr')
        if any(c in culprit for c in cls):
            clean = [1.5 if c in culprit else x for x, c in zip(flat, cls)]
            if isinstance(value, np.ndarray):
                cv = np.array([float(x) for x in clean], dtype=float).reshape(value.shape)
            else:
                cv = [float(x) for x in clean]
            case2 = dict(case)
            case2['value'] = enc_val(cv)
            fp2, viols2 = _roundtrip(case2, _NullAcc())
            if viols2:
                acc.count('obs:attribution:independent-of-special-elements')
                viols, shown = viols2, case2
            else:
                acc.count('obs:attribution:caused-by-special-elements')
    if viols:
        for i, (k, w) in enumerate(viols):
            acc.viol(k, w, shown, fp=fp, new_case=(i == 0))
    else:
        acc.ok(fp, sample=case if acc.judged % 701 == 0 else None)


def _vshort(v):
    if isinstance(v, np.ndarray):
        return 'ndarray%s[%s]%s' % (v.shape, v.dtype, v.ravel()[:6].tolist())
    if isinstance(v, list):
        return 'list%r' % (v[:6],)
    return '%r' % (v,)


# ----------------------------------------------------------------------------------------------
# anchor call sequences on record decks (generator and location model: omv/gen/c29_seq.py)
# ----------------------------------------------------------------------------------------------
def gen_seq(rng):
    mode = rng.choice(list(DELIMS))
    case = SQ.gen_seq_case(rng, mode, DELIMS[mode]['seps'], gen_scalar)
    for st in case['steps']:
        if not st['missing']:
            st['value'] = enc_val(st['value'])
    return case


def judge_seq(case, acc):
    """The SAME sequence of [reset_anchor] mark_anchor transfer_var calls is applied to the generator and, on the
    generated file, to the parser.  Judged step by step, from the state observed so far:
      * the step's field number changed on exactly one line, and that line is admissible for the call
        (SQ.admissible: the documented reading; both readings where the documentation leaves room);
      * the parser reads the value written back from (row, field) after the same calls;
      * an occurrence that does not exist is reported by both classes (RuntimeError);
    and at the end: no other token, no separator and not the number of lines changed."""
    from openmdao.utils.file_wrap import InputFileGenerator, FileParser
    mode = case['mode']
    D = DELIMS[mode]
    chars = D['chars']
    lines = case['lines']
    steps = case['steps']
    template = '\n'.join(lines) + ('\n' if case['final_newline'] else '')
    tname, oname = 'c29_seq_template.txt', 'c29_seq_generated.txt'
    with open(tname, 'w') as f:
        f.write(template)
    acc.count('obs:seq')
    acc.count('obs:delims:' + mode)
    acc.count('obs:seq:family:' + case['family'])
    values = [None if st['missing'] else dec_val(st['value']) for st in steps]

    def call(st):
        return '%smark_anchor(%r, %d)' % ('reset_anchor(); ' if st['reset'] else '', st['text'], st['occ'])

    # ---- model walk with the documented reading only (for classes / fingerprint; the judgement below uses the
    #      observed state)
    viols = []
    fp_classes = []

    def finish(fp_extra=None):
        fp = fingerprint(['seq', mode, case['family'], len(lines), case['m'], case['parity'], case['final_newline'],
                          fp_classes, [None if v is None else vclass(v) for v in values]])
        if viols:
            for i, (k, w) in enumerate(viols):
                acc.viol(k, w, case, fp=fp, new_case=(i == 0))
        else:
            acc.ok(fp, sample=case if acc.judged % 701 == 0 else None)

    # ---- writer ------------------------------------------------------------------------------
    wr_missing = {}
    try:
        gen = InputFileGenerator()
        gen.set_template_file(tname)
        gen.set_generated_file(oname)
        if D['w'] is not None:
            gen.set_delimiters(D['w'])
    except Exception as e:
        viols.append(('seq:setup:writer-raises-%s' % type(e).__name__, str(e)[:200]))
        return finish()
    wr_error = None
    for s, st in enumerate(steps):
        try:
            if st['reset']:
                gen.reset_anchor()
            try:
                gen.mark_anchor(st['text'], st['occ'])
                wr_missing[s] = False
            except RuntimeError:
                wr_missing[s] = True
                if st['missing']:
                    continue
                raise
            if not st['missing']:
                acc.count('obs:write:var')
                gen.transfer_var(values[s], st['row'], st['field'])
        except Exception as e:
            wr_error = (s, e)
            break
    text = None
    try:
        gen.generate()          # also after an error: the steps before it are judged on what was written so far
        with open(oname) as f:
            text = f.read()
    except Exception as e:
        viols.append(('seq:generate:writer-raises-%s' % type(e).__name__, 'generate() raised %s; template %r, steps %r'
                      % (str(e)[:120], lines, [call(st) for st in steps])))
        return finish()
    nrun = len(steps) if wr_error is None else wr_error[0]
    # ---- reader: the same calls on the generated file ------------------------------------------
    got = {}
    rd_missing = {}
    rd_error = None
    try:
        par = FileParser()
        if D['r'] is not None:
            par.set_delimiters(D['r'])
        par.set_file(oname)
    except Exception as e:
        viols.append(('seq:setup:reader-raises-%s' % type(e).__name__, str(e)[:200]))
        return finish()
    for s, st in enumerate(steps[:nrun]):
        try:
            if st['reset']:
                par.reset_anchor()
            try:
                par.mark_anchor(st['text'], st['occ'])
                rd_missing[s] = False
            except RuntimeError:
                rd_missing[s] = True
                if st['missing']:
                    continue
                raise
            if not st['missing']:
                got[s] = par.transfer_var(st['row'], st['field'])
                acc.count('obs:read:transfer_var')
        except Exception as e:
            rd_error = (s, e)
            break
    # ---- token diff ------------------------------------------------------------------------------
    changed = {}            # token index -> [line, ...]
    other = None
    acc.count('obs:textdiff')
    tlines = template.split('\n')
    glines = text.split('\n')
    if len(glines) != len(tlines):
        other = ('line-count-changed', 'template has %d lines, generated file %d' % (len(tlines), len(glines)))
    else:
        wfields = set(st['field'] - 1 for st in steps if not st['missing'])
        for i, (tl_, gl_) in enumerate(zip(tlines, glines)):
            tt, ts = tokenize(tl_, chars)
            gt, gs = tokenize(gl_, chars)
            if len(tt) != len(gt) or ts != gs:
                other = other or ('other-line-changed', 'line %d: template %r -> generated %r' % (i, tl_, gl_))
                continue
            for j in range(len(tt)):
                if tt[j] != gt[j]:
                    if j in wfields:
                        changed.setdefault(j, []).append(i)
                    else:
                        other = other or ('other-field-changed', 'line %d: field %d is not written by any step: '
                                          'template %r -> generated %r' % (i, j + 1, tl_, gl_))
    # ---- step by step, from the observed state --------------------------------------------------
    state = (0, False, None)
    for s, st in enumerate(steps):
        if st['reset']:
            state = (0, False, None)
        cls = SQ.step_class(lines, state, st['text'], st['occ'])
        fp_classes.append(cls + (':missing' if st['missing'] else ''))
        acc.count('obs:seq:step:' + cls)
        adm = SQ.admissible(lines, state, st['text'], st['occ'])
        if len(adm) > 1:
            acc.count('obs:seq:step-with-two-admissible-readings')
        if wr_error is not None and wr_error[0] == s:
            e = wr_error[1]
            viols.append(('seq:%s:writer-raises-%s' % (cls, type(e).__name__),
                          'step %d %s then transfer_var(%s, %s, %s) on the generator raised %s: %s; template %r' %
                          (s + 1, call(st), _vshort(values[s]), st.get('row'), st.get('field'), type(e).__name__,
                           str(e)[:120], lines)))
            break
        if st['missing']:
            acc.count('obs:seq:missing-anchor')
            if rd_error is not None and rd_error[0] == s:
                e = rd_error[1]
                viols.append(('seq:%s:reader-raises-%s' % (cls, type(e).__name__),
                              'step %d %s on the parser raised %s: %s; generated %r' %
                              (s + 1, call(st), type(e).__name__, str(e)[:120], text)))
                break
            if not wr_missing.get(s) or not rd_missing.get(s, True):
                who = 'writer' if not wr_missing.get(s) else 'reader'
                viols.append(('seq:%s:missing-occurrence-not-reported-by-%s' % (cls, who),
                              'step %d %s: no such occurrence in %r, but no RuntimeError' % (s + 1, call(st), lines)))
                break
            continue
        j = st['field'] - 1
        where = changed.get(j, [])
        if len(where) != 1:
            viols.append(('seq:%s:%s' % (cls, 'value-not-written' if not where else 'field-written-on-several-lines'),
                          'step %d %s transfer_var(%s, %d, %d): field %d changed on lines %s; template %r -> '
                          'generated %r' % (s + 1, call(st), _vshort(values[s]), st['row'], st['field'], st['field'],
                                           where, lines, text)))
            break
        landed = where[0] - st['row']
        if landed not in adm:
            viols.append(('seq:%s:written-relative-to-inadmissible-line' % cls,
                          'step %d %s from line %d (anchored=%s): generator anchored on line %d, admissible %s; '
                          'template %r' % (s + 1, call(st), state[0], state[1], landed, sorted(adm), lines)))
            break
        if st['row'] == 0 and landed == 0:
            acc.count('obs:seq:anchor-first-line')
        if st['row'] == 0 and landed == len(lines) - 1:
            acc.count('obs:seq:anchor-last-line')
        if st['row'] != 0:
            acc.count('obs:seq:row-offset-nonzero')
        if rd_error is not None and rd_error[0] == s:
            e = rd_error[1]
            viols.append(('seq:%s:reader-raises-%s' % (cls, type(e).__name__),
                          'step %d %s then transfer_var(%d, %d) on the parser raised %s: %s; generated %r' %
                          (s + 1, call(st), st['row'], st['field'], type(e).__name__, str(e)[:120], text)))
            break
        why = same_value(got[s], values[s])
        if why:
            viols.append(('seq:%s:read-back-differs' % cls,
                          'step %d %s: generator wrote %s at (line %d, field %d); parser after the same calls at '
                          '(row %d, field %d) %s; generated %r' % (s + 1, call(st), _vshort(values[s]), where[0],
                                                                  st['field'], st['row'], st['field'], why, text)))
            break
        if len(adm) > 1 and st['occ'] < 0 and landed == min(adm):
            acc.count('note:reverse-search-from-anchored-state-skips-last-line')
        state = (landed, True, st['text'])
    if not viols and other is not None:
        viols.append(('seq:any:' + other[0], other[1] + '; template %r' % (lines,)))
    return finish()


# ----------------------------------------------------------------------------------------------
# parser half of the special-float round trip
# ----------------------------------------------------------------------------------------------
SPECIAL_TOKENS = ['Inf', '-Inf', 'NaN', 'nan', '+Inf', 'inf', '-inf', 'INF', '-INF', 'NAN']


def judge_parse_only(case, acc):
    from openmdao.utils.file_wrap import FileParser
    mode = case['mode']
    D = DELIMS[mode]
    tok = case['token']
    fields = list(case['before']) + [tok] + list(case['after'])
    line = D['asep'].join(fields)
    with open('c29_special.txt', 'w') as f:
        f.write('HEAD\n' + line + '\n')
    acc.count('obs:parse-only')
    ref = float(tok)
    fp = fingerprint(['parse-only', mode, tok, len(case['before']), len(case['after'])])
    try:
        par = FileParser()
        if D['r'] is not None:
            par.set_delimiters(D['r'])
        par.set_file('c29_special.txt')
        got = par.transfer_var(1, len(case['before']) + 1)
    except Exception as e:
        acc.viol('parse-only:%s:reader-raises-%s' % (tok, type(e).__name__), str(e)[:200], case, fp=fp)
        return
    if isinstance(got, str):
        # not recognised as a number at all: which spellings must be recognised depends on what a repaired
        # writer emits, so this is recorded, not judged here (the round trip judges it once the writer works)
        acc.count('note:special-spelling-read-as-text:' + tok)
        acc.ok(fp, nontrivial=False)
        return
    if isinstance(got, float) and ((math.isnan(ref) and math.isnan(got)) or got == ref):
        acc.ok(fp)
        return
    obs = 'sign-lost' if (isinstance(got, float) and got == -ref) else 'value-differs'
    acc.viol('parse-only:%s:%s' % (tok, obs), 'token %r in line %r is read as %r, Python reads %r' %
             (tok, line, got, ref), case, fp=fp)


# ----------------------------------------------------------------------------------------------
# framework entry points
# ----------------------------------------------------------------------------------------------
def shards(tier, seed):
    if tier == 'quick':
        ns, per = 16, 220
    else:
        ns, per = 32, 1700
    nseq = (per * 3) // 4
    return [{'seed': seed * 1000003 + k, 'n': per, 'nseq': nseq, 'parse_only': k == 0} for k in range(ns)]


def run_shard(shard, acc):
    rng = random.Random(shard['seed'])
    if shard.get('parse_only'):
        for mode in DELIMS:
            for tok in SPECIAL_TOKENS:
                for nb, na in ((0, 0), (1, 1), (2, 0)):
                    judge_parse_only({'kind': 'parse-only', 'mode': mode, 'token': tok,
                                      'before': ['1.5', 'abc'][:nb], 'after': ['2.5'][:na]}, acc)
    for _ in range(shard['n']):
        run_case(gen_case(rng), acc)
    rng = random.Random(shard['seed'] + 500009)
    for _ in range(shard.get('nseq', 0)):
        run_case(gen_seq(rng), acc)


def run_case(case, acc):
    if case['kind'] == 'parse-only':
        judge_parse_only(case, acc)
    elif case['kind'] == 'seq':
        judge_seq(case, acc)
    else:
        judge_roundtrip(case, acc)
